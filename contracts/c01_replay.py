"""C01 replay: turn a z3 counter-model of a trial-/study-keyed RPC obligation into an RPC history, run it on the REAL
service (replay/service_replay.py) and compare what happened with the sequential reference model of the documented
API (DESIGN.md Appendix B), re-stated here natively over the observed snapshots.  A violation is `reproduced` only
if the real service deviates from the reference on that history."""
import json
import os
import subprocess

import z3

from pyvc import engine as E
from contracts import servicer_model as S
from contracts.servicer_model import Name, acc, is_some, val, parse

T, ST = S.S_TRIAL, S.S_STUDY
STATE = {1: 'REQUESTED', 2: 'ACTIVE', 3: 'STOPPING', 4: 'SUCCEEDED', 5: 'INFEASIBLE'}
STUDY_STATE = {0: 'ACTIVE', 1: 'ACTIVE', 2: 'INACTIVE', 3: 'COMPLETED'}
MUTATING = {'StopTrial', 'AddTrialMeasurement', 'CompleteTrial', 'DeleteTrial', 'CreateTrial', 'UpdateMetadata', 'CheckTrialEarlyStoppingState'}


def _ev(m, t):
    return m.eval(t, model_completion=True)


def scenario(rpc, p, m):
    run = p.run
    req = run.req
    field = 'trial_name' if 'trial_name' in req.schema.fields else ('name' if 'name' in req.schema.fields else 'parent')
    k = parse(E.to_z3(req.get(field)))
    is_trial = z3.is_true(_ev(m, Name.is_trial(k)))
    is_study = z3.is_true(_ev(m, Name.is_study(k)))
    sk = S.study_of_trial(k) if is_trial else k
    D0 = run.D0
    study_present = (is_trial or is_study) and z3.is_true(_ev(m, is_some(ST(), D0['D.study'][sk])))
    sstate = _ev(m, acc(ST(), 'state')(val(ST(), D0['D.study'][sk]))).as_long() if study_present else 1
    steps = [{'rpc': 'CreateStudy'}]
    info = {'rpc': rpc, 'well_formed_name': is_trial or is_study, 'study_present': study_present, 'study_state': STUDY_STATE.get(sstate, 'ACTIVE')}
    trial_present = False
    if is_trial and study_present:
        to = D0['D.trial'][k]
        trial_present = z3.is_true(_ev(m, is_some(T(), to)))
        if trial_present:
            t = val(T(), to)
            st = _ev(m, acc(T(), 'state')(t)).as_long()
            nmeas = max(0, min(2, _ev(m, acc(T(), 'measurements__len')(t)).as_long()))
            info.update({'trial_state': STATE.get(st), 'n_measurements': nmeas})
            steps.append({'rpc': 'CreateTrial', 'state': 'SUCCEEDED' if st == 4 else 'REQUESTED', 'final': 1.0 if st == 4 else None})
            if st in (2, 3, 5):
                steps.append({'rpc': 'SuggestTrials', 'count': 1, 'client': 'c'})
                for i in range(nmeas):
                    steps.append({'rpc': 'AddTrialMeasurement', 'trial': 1, 'value': 0.5 + i, 'steps': i + 1})
                if st == 3:
                    steps.append({'rpc': 'StopTrial', 'trial': 1})
                if st == 5:
                    steps.append({'rpc': 'CompleteTrial', 'trial': 1, 'infeasible': True, 'reason': 'setup'})
            else:
                info['n_measurements'] = 0
    info['trial_present'] = trial_present
    if study_present and sstate in (2, 3):
        steps.append({'rpc': 'SetStudyState', 'state': STUDY_STATE[sstate]})
    if not study_present:
        steps.append({'rpc': 'DeleteStudy'})
    steps.append({'rpc': 'snapshot'})
    call = {'rpc': rpc, 'under_test': True}
    if rpc in ('StopTrial', 'AddTrialMeasurement', 'CompleteTrial', 'DeleteTrial', 'GetTrial', 'CheckTrialEarlyStoppingState'):
        call['trial'] = 1 if trial_present else 99
        if not (is_trial or is_study):
            call['name'] = 'not/a/resource/name'
    if rpc == 'CompleteTrial':
        MS = S.schema('vizier.Measurement')
        fm = req.get('final_measurement').pack()
        has_metrics = _ev(m, acc(MS, 'metrics__len')(fm)).as_long() > 0
        call['value'] = 2.5 if has_metrics else None
        call['infeasible'] = z3.is_true(_ev(m, E.to_z3(req.get('trial_infeasible'))))
        call['reason'] = 'because'
    if rpc == 'AddTrialMeasurement':
        call['value'], call['steps'] = 7.0, 9
    if rpc == 'SetStudyState':
        call['state'] = {0: 'ACTIVE', 1: 'ACTIVE', 2: 'INACTIVE', 3: 'COMPLETED'}.get(_ev(m, E.to_z3(req.get('state'))).as_long(), 'INACTIVE')
    if rpc == 'UpdateMetadata':
        call['study'] = {'k': 'v'}
        call['trials'] = {'1': {'k': 'v'}}
    steps.append(call)
    steps.append({'rpc': 'snapshot'})
    return {'backend': 'ram', 'policy': {'suggest': [{'deliver': '+0'}]}, 'steps': steps, 'model': info}


def reference_check(sc, res):
    """Native re-statement of Appendix B for one call; returns list of deviations (empty = behaves like the reference)."""
    info = sc['model']
    rpc = info['rpc']
    r = res['results']
    idx = [i for i, s in enumerate(sc['steps']) if s.get('under_test')][0]
    before, call, after = r[idx - 1]['snapshot'], r[idx], r[idx + 1]['snapshot']
    dev = []
    tb = {t['id']: t for t in before.get('trials', [])}
    ta = {t['id']: t for t in after.get('trials', [])}
    unchanged = before.get('trials') == after.get('trials') and before.get('study_state') == after.get('study_state') \
        and before.get('study_metadata') == after.get('study_metadata')
    mutable = info['study_state'] == 'ACTIVE'
    st = info.get('trial_state')
    err = None if call['ok'] else (call['error_class'], call.get('code'))
    is_fp = err is not None and err[1] == 'StatusCode.FAILED_PRECONDITION'
    is_nf = err is not None and ('KeyError' in call.get('mro', []) or 'ValueError' in call.get('mro', [])) and not is_fp
    if err is not None and not unchanged:
        dev.append('a failing call changed stored data')
    trial_rpc = rpc in ('StopTrial', 'AddTrialMeasurement', 'CompleteTrial', 'DeleteTrial', 'GetTrial')
    if trial_rpc:
        if not info['study_present'] or not info['trial_present'] or not info['well_formed_name']:
            if call['ok']:
                dev.append('call on a missing study/trial succeeded')
            return dev
        if rpc != 'GetTrial' and not mutable:
            if not is_fp:
                dev.append('mutation of an immutable study did not fail with FAILED_PRECONDITION (got %s)' % (err,))
            return dev
        t0, t1 = tb.get('1'), ta.get('1')
        if rpc == 'GetTrial':
            if not call['ok'] or not unchanged or call['trial']['state'] != t0['state']:
                dev.append('GetTrial does not return the stored trial unchanged')
            return dev
        if rpc == 'DeleteTrial':
            if not call['ok'] or '1' in ta:
                dev.append('DeleteTrial did not remove the trial')
            return dev
        allowed = {'StopTrial': ('ACTIVE',), 'AddTrialMeasurement': ('ACTIVE', 'STOPPING'), 'CompleteTrial': ('ACTIVE', 'STOPPING')}[rpc]
        noop = {'StopTrial': ('STOPPING', 'SUCCEEDED', 'REQUESTED', 'INFEASIBLE')}.get(rpc, ())
        if st not in allowed:
            if call['ok'] and not (st in noop and unchanged):
                dev.append('%s on a %s trial succeeded (expected FAILED_PRECONDITION%s)' % (rpc, st, ' or a no-op' if noop else ''))
            if err is not None and not is_fp:
                dev.append('%s on a %s trial failed with %s instead of FAILED_PRECONDITION' % (rpc, st, err))
            return dev
        # legal call
        if rpc == 'CompleteTrial':
            c = sc['steps'][idx]
            no_m = c.get('value') is None and not c.get('infeasible') and info.get('n_measurements', 0) == 0
            if no_m:
                if call['ok']:
                    dev.append('CompleteTrial without any measurement succeeded')
                return dev
            if not call['ok']:
                dev.append('legal CompleteTrial failed with %s' % (err,))
                return dev
            want = 'INFEASIBLE' if c.get('infeasible') else 'SUCCEEDED'
            if t1['state'] != want:
                dev.append('completed trial has state %s, expected %s' % (t1['state'], want))
            if t1['params'] != t0['params'] or t1['n_measurements'] != t0['n_measurements']:
                dev.append('completion changed parameters or measurements')
            if c.get('value') is not None and t1['final_metrics'].get('obj') != c['value']:
                dev.append('final measurement is not the one given in the request')
            if c.get('value') is None and not c.get('infeasible') and not t1['has_final']:
                dev.append('final measurement not taken from the last intermediate measurement')
        elif rpc == 'AddTrialMeasurement':
            if not call['ok']:
                dev.append('legal AddTrialMeasurement failed with %s' % (err,))
            elif t1['n_measurements'] != t0['n_measurements'] + 1 or t1['state'] != t0['state']:
                dev.append('measurement not appended exactly once / state changed')
        elif rpc == 'StopTrial':
            if not call['ok'] or t1['state'] != 'STOPPING':
                dev.append('StopTrial on ACTIVE did not move the trial to STOPPING')
        others_changed = [i for i in tb if i != '1' and ta.get(i) != tb[i]]
        if others_changed:
            dev.append('other trials changed: %s' % others_changed)
        return dev
    if rpc == 'SetStudyState':
        if not info['study_present']:
            if call['ok']:
                dev.append('SetStudyState on a missing study succeeded')
        elif not call['ok'] or after.get('study_state') != sc['steps'][idx]['state'] or before.get('trials') != after.get('trials'):
            dev.append('SetStudyState did not store the requested state / changed trials')
        return dev
    if rpc == 'DeleteStudy':
        if info['study_present'] and (not call['ok'] or 'study_error' not in after):
            dev.append('DeleteStudy did not remove the study')
        if not info['study_present'] and call['ok']:
            dev.append('DeleteStudy on a missing study succeeded')
        return dev
    if rpc in ('GetStudy', 'ListTrials'):
        if info['study_present'] and (not call['ok'] or not unchanged):
            dev.append('%s failed or changed data' % rpc)
        if not info['study_present'] and call['ok']:
            dev.append('%s on a missing study succeeded' % rpc)
        return dev
    if rpc == 'CreateTrial':
        if not info['study_present']:
            if call['ok']:
                dev.append('CreateTrial on a missing study succeeded')
        elif not mutable:
            if not is_fp:
                dev.append('CreateTrial on an immutable study did not fail with FAILED_PRECONDITION')
        elif not call['ok']:
            dev.append('legal CreateTrial failed')
        else:
            new = [i for i in ta if i not in tb]
            if len(new) != 1 or int(new[0]) <= max([int(i) for i in tb] or [0]) or ta[new[0]]['state'] not in ('REQUESTED', 'SUCCEEDED') or ta[new[0]]['client_id']:
                dev.append('CreateTrial did not create exactly one fresh REQUESTED/SUCCEEDED trial with a larger id')
            if any(ta.get(i) != tb[i] for i in tb):
                dev.append('CreateTrial changed existing trials')
        return dev
    return dev


def on_violation(rpc):
    def fn(name, p, m):
        sc = scenario(rpc, p, m)
        here = os.path.dirname(os.path.dirname(os.path.abspath(__file__)))
        r = subprocess.run(['/venv/bin/python', os.path.join(here, 'replay', 'service_replay.py'), '-'], input=json.dumps(sc),
                           capture_output=True, text=True, timeout=120)
        if r.returncode != 0:
            return {'scenario': sc, 'replay_error': r.stderr[-600:]}, None
        res = json.loads([l for l in r.stdout.splitlines() if l.startswith('{')][-1])
        dev = reference_check(sc, res)
        idx = [i for i, s in enumerate(sc['steps']) if s.get('under_test')][0]
        rep = {'scenario': sc, 'deviations_from_reference_model': dev,
               'observed_call': {k: v for k, v in res['results'][idx].items() if k != 'mro'},
               'how_to_replay': '/venv/bin/python /verif/replay/service_replay.py <scenario.json>'}
        return rep, bool(dev)
    return fn
