"""CheckTrialEarlyStoppingState under contract (C06, C01): the real method of VizierServicer, with the early-stopping
algorithm modelled as 'any EarlyStopDecisions (any list of decisions for valid trial ids) or any Exception'."""
import z3

from pyvc import engine as E, models as M, protomodel as pm
from pyvc.engine import Obj, model
from pyvc.protomodel import Msg, SymList
from pyvc.source import ModuleInfo
from contracts import servicer_model as S
from contracts import suggest as SG      # registers the algorithm-side models
from contracts.servicer_model import Name, acc, is_some, some, none, val, parse, mkname

T, ST, EO = S.S_TRIAL, S.S_STUDY, S.S_EOP
SVC = S.SVC
CONV = SG.CONV
ACTIVE_OP, DONE_OP, FAILED_OP = 1, 2, 3
REQUESTED, ACTIVE, STOPPING, SUCCEEDED, INFEASIBLE = 1, 2, 3, 4, 5


@model(CONV + ':EarlyStopConverter.to_request_proto')
def _to_request_proto(it, args, kw):
    return S.symbolic_msg('vizier.EarlyStopRequest', 'early_stop_request_proto!%d' % it.run.fresh_n)


es_md = z3.Function('es_decisions_metadata', pm.msg_sort(S.schema('vizier.EarlyStopDecisions')), pm.PyObj)


@model(CONV + ':EarlyStopConverter.from_decisions_proto')
def _from_decisions_proto(it, args, kw):
    proto = args[-1]
    it.run.assumed.add('EarlyStopConverter.from_decisions_proto does not raise on the decisions returned by Pythia')
    it.run.assumed.add('early-stopping decisions name valid (non-negative) trial ids')
    L = proto.get('decisions')
    j = z3.Int('j!esd')
    D = S.schema('vizier.EarlyStopDecision')
    it.run.axiom(z3.ForAll([j], z3.Implies(z3.And(j >= 0, j < L.n), acc(D, 'id')(L.arr[j]) >= 0)))
    it.run.assume(L.n >= 0)
    it.run.ES = M.snapshot(L)
    return Obj('opaque:EarlyStopDecisions', {'decisions': L, 'metadata': M.OpaqueObj(es_md(proto.pack()))})


def eop_status(o):
    return acc(EO(), 'status')(val(EO(), o))


def _inv_decisions(it, fr, ctx):
    """for early_stopping_decision in early_stopping_decisions.decisions"""
    run = it.run
    if ctx.phase == 'init':
        k0 = parse(E.to_z3(run.req.get('trial_name')))
        run.es = {'D0loop': dict(run.ghost), 'outer': Name.eop(Name.o2(k0), Name.s2(k0), Name.t2(k0))}
    Dl, ok = run.es['D0loop'], run.es['outer']
    k = z3.Const('k!ies', Name)
    De = run.ghost['D.eop']
    return [
        ('other_maps', z3.And(run.ghost['D.trial'] == Dl['D.trial'], run.ghost['D.study'] == Dl['D.study'], run.ghost['D.sop'] == Dl['D.sop'])),
        ('outer_exists', z3.And(Name.is_eop(ok), is_some(EO(), De[ok]))),
        ('no_other_active', z3.ForAll([k], z3.Implies(z3.And(k != ok, is_some(EO(), De[k])),
                                                      z3.Or(eop_status(De[k]) != ACTIVE_OP, z3.And(is_some(EO(), Dl['D.eop'][k]), De[k] == Dl['D.eop'][k]))))),
        ('only_ops_added', z3.ForAll([k], z3.Implies(is_some(EO(), Dl['D.eop'][k]), is_some(EO(), De[k])))),
        ('ops_well_formed', z3.ForAll([k], z3.Implies(is_some(EO(), De[k]), z3.Or(De[k] == Dl['D.eop'][k], S.inv_eop_at(run.ghost, k))))),
    ]


E.LOOPS[(SVC, 'VizierServicer.CheckTrialEarlyStoppingState', 1)] = E.LoopSpec(_inv_decisions, ghost=('D.eop',))


def entry(it):
    S.init_view(it.run)
    svc = S.make_servicer(it)
    req = S.symbolic_msg('vizier.CheckTrialEarlyStoppingStateRequest', 'req')
    it.run.req = req
    cls = ModuleInfo.get(SVC).classes['VizierServicer']
    return it.invoke(E.FuncVal(cls.mod, cls.methods['CheckTrialEarlyStoppingState'], cls), [svc, req, None], {})


def no_active(D):
    k = z3.Const('k!na', Name)
    return z3.ForAll([k], z3.Implies(is_some(EO(), D['D.eop'][k]), eop_status(D['D.eop'][k]) != ACTIVE_OP))


def post(p):
    from contracts import c01
    run = p.run
    D0, D1 = run.D0, run.ghost
    req = run.req
    k = parse(E.to_z3(req.get('trial_name')))
    sk = S.study_of_trial(k)
    ok = Name.eop(Name.o2(k), Name.s2(k), Name.t2(k))
    t = T()
    kind = p.kind
    cls = E.class_name(p.value.cls) if kind == 'raise' else None
    code = p.value.attrs.get('_code') if kind == 'raise' and cls == 'LocalRpcError' else None
    evs = [e for e in run.events if e[0] in ('ds', 'pythia')]
    wrote_op = any(e[1] in ('create_early_stopping_operation', 'update_early_stopping_operation') for e in evs)
    obs = []
    j = z3.Const('j!any', Name)
    R = 'C01.CheckTrialEarlyStoppingState.'
    # trials change only through the algorithm's metadata update
    o0, o1 = D0['D.trial'][j], D1['D.trial'][j]
    obs.append((R + 'trials_only_metadata', z3.And(is_some(t, o0) == is_some(t, o1),
                                                   z3.Implies(is_some(t, o0), S.same_except_metadata_trial(val(t, o1), val(t, o0))))))
    for nm, f in c01.lifecycle(D0, D1, j).items():
        obs.append((R + nm, f))
    obs.append((R + 'inv_preserved', c01.inv_preserved(p, j)))
    obs.append((R + 'frame', z3.And(D1['D.sop'] == D0['D.sop'],
                                    z3.ForAll([j], z3.Implies(j != sk, D1['D.study'][j] == D0['D.study'][j])),
                                    z3.ForAll([j], z3.Implies(z3.Not(z3.And(Name.is_trial(j), S.study_of_trial(j) == sk)),
                                                              D1['D.trial'][j] == D0['D.trial'][j])))))
    study_o = D0['D.study'][sk]
    study_present = z3.And(Name.is_trial(k), is_some(ST(), study_o))
    sst = acc(ST(), 'state')(val(ST(), study_o))
    mutable = z3.Or(sst == 0, sst == 1)
    present = z3.And(Name.is_trial(k), is_some(t, D0['D.trial'][k]))
    st = acc(t, 'state')(val(t, D0['D.trial'][k]))
    allowed = z3.Or(st == ACTIVE, st == STOPPING)
    pythia_raised = getattr(run, 'pythia_raised', False)
    if kind == 'raise' and not wrote_op:
        obs.append((R + 'error_leaves_data_unchanged', c01.unchanged(D0, D1)))
        if cls == 'NotFoundError':
            obs.append((R + 'error_class', z3.Not(z3.And(Name.is_trial(k), study_present, present))))
        elif cls == 'LocalRpcError' and code == c01.FP:
            obs.append((R + 'error_class', z3.Or(z3.And(study_present, z3.Not(mutable)), z3.And(present, z3.Not(allowed)))))
        elif cls == 'ValueError':
            obs.append((R + 'error_class', z3.Not(Name.is_trial(k))))
        else:
            obs.append((R + 'error_class', z3.BoolVal(False)))
    if kind == 'return':
        obs.append((R + 'missing', z3.And(study_present, present)))
        obs.append((R + 'immutable_study', mutable))
        obs.append((R + 'illegal_state', allowed))
    # ---- C06: a failing / silent algorithm never leaves the operation ACTIVE (later checks would be answered from it
    #      forever without reaching the algorithm again).  Inductive: NoActive(D0) => NoActive(D1) on every exit.
    kk = z3.Const('k!act', Name)
    active_at = lambda D, k_: z3.And(is_some(EO(), D['D.eop'][k_]), eop_status(D['D.eop'][k_]) == ACTIVE_OP)
    obs.append(('C06.CheckTrialEarlyStoppingState.no_active_op_left', z3.Implies(active_at(D1, kk), active_at(D0, kk))))
    pythia_called = any(e[0] == 'pythia' for e in evs)
    if kind == 'return' and not pythia_called:
        # answered WITHOUT reaching the algorithm: allowed only while another call is computing (operation ACTIVE) or
        # because the stored answer is recent (the documented recycle period): every operation that is neither ACTIVE
        # nor recent -- in particular a FAILED or stale one -- is recomputed, so no check is answered from an abandoned
        # operation forever
        o0 = D0['D.eop'][ok]
        op0 = val(EO(), o0)
        CT = S.schema('google.protobuf.Timestamp')
        ct = acc(EO(), 'completion_time')(op0)
        period = z3.Int('early_stop_recycle_period')
        nows = getattr(run, 'now_terms', [])
        recent = z3.Or(*[n_ - M.ts_to_dt(acc(CT, 'seconds')(ct), acc(CT, 'nanos')(ct)) < period for n_ in nows]) if nows else z3.BoolVal(False)
        obs.append(('C06.CheckTrialEarlyStoppingState.reaches_algorithm',
                    z3.And(is_some(EO(), o0), z3.Or(eop_status(o0) == ACTIVE_OP, recent))))
    if kind == 'raise' and wrote_op:
        # an exception after the operation was (re)activated is acceptable only as a *reported* algorithm failure
        obs.append(('C06.CheckTrialEarlyStoppingState.reported', z3.BoolVal(bool(pythia_raised)) if not _md_failed(run, evs) else z3.BoolVal(True)))
    return obs


def _md_failed(run, evs):
    names = [e[1] for e in evs]
    return 'update_metadata' in names and not hasattr(run, 'md_update')


def witness_terms(p):
    run = p.run
    k = parse(E.to_z3(run.req.get('trial_name')))
    ok = Name.eop(Name.o2(k), Name.s2(k), Name.t2(k))
    out = [('request', run.req.pack()), ('trial key', k), ('D0.trial[key]', run.D0['D.trial'][k]), ('D0.eop[op]', run.D0['D.eop'][ok]),
           ('D1.eop[op]', run.ghost['D.eop'][ok])]
    if hasattr(run, 'ES'):
        out.append(('number of decisions', run.ES.n))
    return out


def native_es_scenario(first):
    """History: one ACTIVE trial; the scripted early-stop policy answers `first` to the first check and stop=[1] to
    every later one; three checks in a row.  Returns (replay dict, wedged?)."""
    import json
    import os
    import subprocess
    sc = {'backend': 'ram', 'policy': {'suggest': [{'deliver': '+0'}], 'early_stop': [first, {'stop': [1]}]},
          'steps': [{'rpc': 'CreateStudy'}, {'rpc': 'SuggestTrials', 'count': 1, 'client': 'c'},
                    {'rpc': 'CheckTrialEarlyStoppingState', 'trial': 1}, {'rpc': 'CheckTrialEarlyStoppingState', 'trial': 1},
                    {'rpc': 'CheckTrialEarlyStoppingState', 'trial': 1}]}
    here = os.path.dirname(os.path.dirname(os.path.abspath(__file__)))
    r = subprocess.run(['/venv/bin/python', os.path.join(here, 'replay', 'service_replay.py'), '-'], input=json.dumps(sc),
                       capture_output=True, text=True, timeout=120)
    if r.returncode != 0:
        return {'scenario': sc, 'replay_error': r.stderr[-500:]}, None
    res = json.loads([l for l in r.stdout.splitlines() if l.startswith('{')][-1])
    checks = [x for x in res['results'] if x['rpc'] == 'CheckTrialEarlyStoppingState']
    n_policy_calls = len([x for x in res['policy_log'] if x[0] == 'early_stop'])
    # natively: the 2nd/3rd check must reach the algorithm again (its scripted 2nd answer says stop=[1])
    wedged = n_policy_calls < 2 or not any(c.get('should_stop') for c in checks[1:])
    rep = {'scenario': sc, 'observed': [{k: v for k, v in c.items() if k != 'mro'} for c in checks], 'early_stop_policy_calls': n_policy_calls,
           'native_clause': 'a later check reaches the algorithm again and returns its answer', 'holds_natively': not wedged}
    return rep, bool(wedged)


SCENARIOS = {'algorithm raises': {'raise': 'ValueError'}, 'algorithm gives no decision for the trial': {'stop': []},
             'algorithm decides for another trial only': {'stop': [7]}}


def refute_native(names):
    """Directed replay for an undischarged `no_active_op_left`: the failing paths are exactly 'the algorithm raised' and
    'the algorithm returned without a decision for this trial'; run both on the real service."""
    out = {}
    want = [n for n in ('C06.CheckTrialEarlyStoppingState.no_active_op_left', 'C06.CheckTrialEarlyStoppingState.reaches_algorithm') if n in names]
    if not want:
        return out
    for label, first in SCENARIOS.items():
        rep, wedged = native_es_scenario(first)
        if wedged:
            rep['case'] = label
            for n in want:
                out[n] = ('undischarged / refuted on the paths where %s; directed replay on the real service' % label, rep, True)
            break
    return out


def run(chk, pid, tier, known=None):
    from pyvc import verify
    chk.function(SVC, 'VizierServicer.CheckTrialEarlyStoppingState')
    chk.assume('the early-stopping algorithm returns any decisions for valid trial ids or raises any Exception, and does not write to the datastore')

    def only(n):
        return n.startswith(pid + '.') or n.startswith(('VizierServicer.CheckTrialEarlyStoppingState.loop', 'datastore.'))

    def rename(n):
        return n if n.startswith(pid + '.') else '%s.CheckTrialEarlyStoppingState.support.%s' % (pid, n.replace('VizierServicer.CheckTrialEarlyStoppingState.', ''))

    fr = verify.verify_function(chk, 'VizierServicer.CheckTrialEarlyStoppingState', entry, post, witness_terms=witness_terms, known=known,
                                refute=refute_native if pid == 'C06' else None,
                                timeout_ms=10000 if tier == 'quick' else 60000, expect_paths=6, workers=8, only=only, rename=rename)
    return fr.inlined
