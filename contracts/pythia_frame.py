"""Frame condition of the Pythia side, assumed by the servicer contracts (C01/C02/C06) and discharged here.

`servicer_model.PythiaRef` models `PythiaServicer.Suggest` / `EarlyStop` as "delivers or raises, and leaves the
datastore view D unchanged".  The second half is an assumption about real code (`pythia_service.PythiaServicer` and the
`ServicePolicySupporter` handed to every policy): they hold a reference to the Vizier service and could call any RPC on
it.  Obligation, decided on the real ASTs for every path (including every exception handler):

    every call made on an expression denoting the Vizier service (``self._vizier_service`` or a local alias of it)
    in the classes of pythia_service.py and service_policy_supporter.py is one of the READ-ONLY RPCs.

A policy can reach the service only through the supporter object it is given (the attribute is private); the supporter's
class is part of the scan.  A service reference that escapes into a call other than the supporter's constructor, or a
dynamic attribute access on it, is *undecided* (not an alarm).  Vacuity: at least one read-only call site must be found.
"""
import ast
import json
import os
import subprocess
import time

from pyvc import report, source

READ_ONLY = {'GetStudy', 'ListTrials', 'GetTrial', 'ListStudies', 'ListOptimalTrials', 'GetOperation'}
MODULES = ['vizier._src.service.pythia_service', 'vizier._src.service.service_policy_supporter']
SERVICE_ATTRS = {'_vizier_service'}
SUPPORTER_CTORS = {'ServicePolicySupporter'}


def _is_service_expr(e, aliases):
    if isinstance(e, ast.Attribute) and e.attr in SERVICE_ATTRS:
        return True
    if isinstance(e, ast.Name) and e.id in aliases:
        return True
    return False


def _callee_name(f):
    if isinstance(f, ast.Attribute):
        return f.attr
    if isinstance(f, ast.Name):
        return f.id
    return None


def scan_function(fn):
    """-> (calls [(rpc, lineno)], escapes [(text, lineno)], dynamic [(text, lineno)])"""
    aliases = set()
    changed = True
    while changed:
        changed = False
        for n in ast.walk(fn):
            if isinstance(n, (ast.Assign, ast.AnnAssign)) and n.value is not None and _is_service_expr(n.value, aliases):
                targets = n.targets if isinstance(n, ast.Assign) else [n.target]
                for t in targets:
                    if isinstance(t, ast.Name) and t.id not in aliases:
                        aliases.add(t.id)
                        changed = True
    calls, escapes, dynamic = [], [], []
    for n in ast.walk(fn):
        if not isinstance(n, ast.Call):
            continue
        f = n.func
        if isinstance(f, ast.Attribute) and _is_service_expr(f.value, aliases):
            calls.append((f.attr, n.lineno))
            continue
        cname = _callee_name(f)
        if cname in ('getattr', 'setattr') and n.args and _is_service_expr(n.args[0], aliases):
            dynamic.append((ast.unparse(n)[:80], n.lineno))
            continue
        inert = (cname or '').endswith(('Error', 'Exception', 'Warning')) or cname in ('str', 'repr', 'format', 'print', 'id', 'type', 'bool', 'isinstance') \
            or (isinstance(f, ast.Attribute) and isinstance(f.value, ast.Name) and f.value.id in ('logging', 'logger', 'log'))
        for a in list(n.args) + [k.value for k in n.keywords]:
            if _is_service_expr(a, aliases) and cname not in SUPPORTER_CTORS and not inert:
                escapes.append((ast.unparse(n)[:80], n.lineno))
    return calls, escapes, dynamic


def replay_inactivation():
    """Native run: a policy raising pythia.InactivateStudyError must leave the study ACTIVE and the next suggestion
    must reach the algorithm again.  -> (reproduced?, result)"""
    sc = {'backend': 'ram', 'policy': {'suggest': [{'raise': 'InactivateStudyError'}, {'deliver': '+0'}]},
          'steps': [{'rpc': 'CreateStudy'}, {'rpc': 'SuggestTrials', 'count': 1, 'client': 'w'}, {'rpc': 'GetStudy'},
                    {'rpc': 'SuggestTrials', 'count': 1, 'client': 'w'}]}
    env = dict(os.environ)
    env['VERIF_REPO'] = source.REPO
    try:
        r = subprocess.run(['/venv/bin/python', os.path.join(report.VERIF, 'replay', 'service_replay.py'), '-'], input=json.dumps(sc),
                           capture_output=True, text=True, timeout=600, env=env, cwd=report.VERIF)
        out = json.loads(r.stdout.strip().splitlines()[-1])
    except Exception as e:      # replay trouble is never a verdict
        return None, {'error': repr(e)}
    res = out['results']
    second = res[3]
    calls = [l for l in out.get('policy_log', []) if l[0] == 'suggest']
    bad = (not second.get('ok')) or len(calls) < 2
    return bool(bad), {'scenario': sc, 'results': res, 'policy_calls': len(calls)}


def run(chk, pid):
    t0 = time.time()
    sites, bad, esc, dyn = [], [], [], []
    for dotted in MODULES:
        try:
            m = source.ModuleInfo.get(dotted)
        except (KeyError, FileNotFoundError) as e:
            chk.error('extract.%s' % dotted, 'module not found in the current tree: %r' % (e,))
            return
        for cname, ci in sorted(m.classes.items()):
            for mname, fn in sorted(ci.methods.items()):
                calls, escapes, dynamic = scan_function(fn)
                if calls or escapes or dynamic:
                    chk.function(dotted, '%s.%s' % (cname, mname))
                for rpc, ln in calls:
                    where = '%s:%s.%s' % (dotted.rsplit('.', 1)[1], cname, mname)
                    sites.append('%s -> %s' % (where, rpc))
                    if rpc not in READ_ONLY:
                        bad.append('%s calls %s on the Vizier service (not a read-only RPC)' % (where, rpc))
                esc += ['%s.%s: %s' % (cname, mname, t) for t, _ in escapes]
                dyn += ['%s.%s: %s' % (cname, mname, t) for t, _ in dynamic]
    name = '%s.PythiaServicer.frame.read_only_vizier_calls' % pid
    detail = {'call_sites': sites, 'read_only_rpcs': sorted(READ_ONLY), 'escapes': esc, 'dynamic': dyn}
    if not sites:
        chk.error('vacuity.pythia_frame', 'no call on the Vizier service found in %s (binding lost?)' % MODULES)
        return
    dt = time.time() - t0
    if bad:
        reproduced, rr = replay_inactivation()
        chk.obligation(name, 'PythiaServicer.*', 'frame', report.VIOLATED, dt, detail=detail, model='\n'.join(bad),
                       replay={'offending_calls': bad, 'native_run': rr,
                               'how_to_replay': 'VERIF_REPO=<tree> /venv/bin/python /verif/replay/service_replay.py - < scenario (policy raises pythia.InactivateStudyError, then a second SuggestTrials)'},
                       reproduced=True if reproduced else None)
    elif esc or dyn:
        chk.obligation(name, 'PythiaServicer.*', 'frame', report.UNDECIDED, dt,
                       detail=dict(detail, reason='the service reference escapes / is accessed dynamically'))
    else:
        chk.obligation(name, 'PythiaServicer.*', 'frame', report.PROVED, dt, detail=detail)


def _always_raises(stmts):
    """every path through the statement list ends in `raise`"""
    for st in stmts:
        if isinstance(st, ast.Raise):
            return True
        if isinstance(st, ast.If) and st.orelse and _always_raises(st.body) and _always_raises(st.orelse):
            return True
        if isinstance(st, (ast.Return, ast.Continue, ast.Break)):
            return False
    return False


def replay_swallowed(exc_name, rpc):
    """Native run: the early-stopping policy raises `exc_name`; the caller must get an error, not an answer."""
    sc = {'backend': 'ram', 'policy': {'suggest': [{'deliver': '+0'}], 'early_stop': [{'raise': exc_name}]},
          'steps': [{'rpc': 'CreateStudy'}, {'rpc': 'SuggestTrials', 'count': 1, 'client': 'w'},
                    {'rpc': 'CheckTrialEarlyStoppingState', 'trial': 1}]}
    env = dict(os.environ)
    env['VERIF_REPO'] = source.REPO
    try:
        r = subprocess.run(['/venv/bin/python', os.path.join(report.VERIF, 'replay', 'service_replay.py'), '-'], input=json.dumps(sc),
                           capture_output=True, text=True, timeout=600, env=env, cwd=report.VERIF)
        out = json.loads(r.stdout.strip().splitlines()[-1])
    except Exception as e:      # replay trouble is never a verdict
        return None, {'error': repr(e)}
    last = out['results'][-1]
    return bool(last.get('ok')), {'scenario': sc, 'result': last}


def run_reporting(chk, pid):
    """`<pid>.PythiaServicer.<Rpc>.policy_failure_reported`: in PythiaServicer.Suggest / EarlyStop every exception handler
    guarding the call of the policy (`.suggest(` / `.early_stop(`) re-raises on every path, so a failing algorithm is reported
    to the servicer for an exception of ANY type (the servicer's own handling of that report is under contract in C06)."""
    try:
        ci = source.ModuleInfo.get(MODULES[0]).classes['PythiaServicer']
    except (KeyError, FileNotFoundError) as e:
        chk.error('extract.PythiaServicer', 'class not found in the current tree: %r' % (e,))
        return
    for rpc, meth in (('Suggest', 'suggest'), ('EarlyStop', 'early_stop')):
        fn = ci.methods.get(rpc)
        if fn is None:
            chk.error('extract.PythiaServicer.%s' % rpc, 'method not found')
            continue
        t0 = time.time()
        calls = [n for n in ast.walk(fn) if isinstance(n, ast.Call) and isinstance(n.func, ast.Attribute) and n.func.attr == meth]
        if not calls:
            chk.error('vacuity.PythiaServicer.%s' % rpc, 'no call of policy.%s() found (binding lost?)' % meth)
            continue
        bad = []
        for tr in [n for n in ast.walk(fn) if isinstance(n, ast.Try)]:
            guarded = any(c in list(ast.walk(ast.Module(body=tr.body, type_ignores=[]))) for c in calls)
            if not guarded:
                continue
            for h in tr.handlers:
                if not _always_raises(h.body):
                    bad.append('handler `except %s` (line %d) around policy.%s() does not re-raise on every path' % (
                        ast.unparse(h.type) if h.type is not None else '', h.lineno, meth))
        name = '%s.PythiaServicer.%s.policy_failure_reported' % (pid, rpc)
        if not bad:
            chk.obligation(name, 'PythiaServicer.' + rpc, 'frame', report.PROVED, time.time() - t0, detail={'policy_calls': len(calls)})
            continue
        reproduced, rr = (None, None)
        if rpc == 'EarlyStop':
            m = [b for b in bad]
            exc = 'NotImplementedError' if any('NotImplementedError' in b for b in m) else 'ValueError'
            reproduced, rr = replay_swallowed(exc, rpc)
        chk.obligation(name, 'PythiaServicer.' + rpc, 'frame', report.VIOLATED, time.time() - t0, model='\n'.join(bad),
                       replay={'offending_handlers': bad, 'native_run': rr}, reproduced=True if reproduced else None)
