"""C14 -- seeded algorithms and benchmark runs are reproducible (DESIGN.md section 5 "C14", section 6 "Read frames").

Back end 'frame': for every seeded entry point the class-aware call-graph closure is computed by abstract
interpretation of the *current* repository AST (pyvc.readframe) and two obligations are decided for all inputs:

  C14.<Entry>.no_ambient_nondeterminism   no path on which the seed is not None reaches time.*, datetime.now/utcnow,
                                          uuid.*, os.urandom, module-level np.random.* / random.*, argument-less
                                          default_rng()/RandomState()/Random(), hash() of str, iteration over a set of str,
                                          or an RNG seeded from the wall clock.  Guarded fall-backs are excluded exactly when the
                                          guard is false for every non-None seed; wall-clock values are excluded by sink.
  C14.<Entry>.seed_reaches_rng            every RNG constructed in the closure, and every explicitly passed seed-like argument,
                                          is data-dependent on the seed / rng parameter; and the seed is used at all.

Entries without a seed parameter (runner protocols) only get the first obligation.
Thorough tier: two fresh processes with perturbed global RNG state / different PYTHONHASHSEED (bounded stand-in).
"""
import json
import os
import subprocess
import sys
import time

from pyvc import readframe as rf
from pyvc import report, source
from pyvc.source import ModuleInfo

PID = 'C14'
A = 'vizier._src.algorithms.'
D = A + 'designers.'
B = 'vizier._src.benchmarks.runners.'

# modules whose functions are expanded (DESIGN section 6: everything else is "callee assumed deterministic")
EXPAND = ['vizier._src.algorithms', 'vizier._src.benchmarks.runners', 'vizier._src.pythia', 'vizier.algorithms', 'vizier.pythia']
SINKS = ['vizier.utils.profiler']

# kind 'object': construct with the seed parameter given, then call the listed methods with arbitrary inputs
# kind 'function': analyse the function with its seed parameter given
ENTRIES = [
    # ---- the property's seeded designers
    dict(name='RandomDesigner', kind='object', mod=D + 'random', cls='RandomDesigner', seeds=('seed',), methods=('update', 'suggest'),
         factories=('from_problem',), randomized=True, replay='random'),
    dict(name='QuasiRandomDesigner', kind='object', mod=D + 'quasi_random', cls='QuasiRandomDesigner', seeds=('seed',),
         methods=('update', 'suggest'), factories=('from_problem',), randomized=True, replay='quasi_random'),
    dict(name='GridSearchDesigner', kind='object', mod=D + 'grid', cls='GridSearchDesigner', seeds=('shuffle_seed',),
         methods=('update', 'suggest'), factories=('from_problem',), randomized=True, replay='shuffled_grid'),
    dict(name='EagleStrategyDesigner', kind='object', mod=D + 'eagle_strategy.eagle_strategy', cls='EagleStrategyDesigner', seeds=('seed',),
         methods=('update', 'suggest'), factories=('from_problem',), randomized=True, replay='eagle'),
    dict(name='NSGA2Designer', kind='object', mod=A + 'evolution.nsga2', cls='NSGA2Designer', seeds=('seed',),
         methods=('update', 'suggest'), factories=('from_problem',), randomized=True, replay='nsga2'),
    dict(name='VizierGPBandit', kind='object', mod=D + 'gp_bandit', cls='VizierGPBandit', seeds=('rng',),
         methods=('update', 'suggest'), factories=('from_problem',), randomized=True),
    dict(name='VizierGPUCBPEBandit', kind='object', mod=D + 'gp_ucb_pe', cls='VizierGPUCBPEBandit', seeds=('rng',),
         methods=('update', 'suggest'), factories=('from_problem',), randomized=True),
    dict(name='CMAESDesigner', kind='object', mod=D + 'cmaes', cls='CMAESDesigner', seeds=('cma_kwargs',),
         methods=('update', 'suggest'), factories=(), randomized=True, replay='cmaes'),
    # ---- seeded building blocks of those designers
    dict(name='UniformRandomSampler', kind='object', mod=A + 'evolution.numpy_populations', cls='UniformRandomSampler', seeds=('seed',),
         methods=('sample',), factories=(), randomized=True),
    dict(name='LinfMutation', kind='object', mod=A + 'evolution.numpy_populations', cls='LinfMutation', seeds=('seed',),
         methods=('mutate',), factories=(), randomized=True),
    dict(name='EagleStrategyUtils', kind='object', mod=D + 'eagle_strategy.eagle_strategy_utils', cls='EagleStrategyUtils', seeds=('rng',),
         methods=('create_perturbations', 'perturb_parameter', 'combine_two_parameters', 'compute_pull_weight_by_type'),
         factories=(), randomized=True),
    dict(name='VectorizedOptimizer.__call__', kind='object', mod=A + 'optimizers.vectorized_base', cls='VectorizedOptimizer', seeds=(),
         methods=(('__call__', ('seed',)),), factories=(), randomized=True),
    dict(name='VectorizedEagleStrategy', kind='object', mod=A + 'optimizers.eagle_strategy', cls='VectorizedEagleStrategy', seeds=(),
         methods=(('init_state', ('seed',)), ('suggest', ('seed',)), ('update', ('seed',))), factories=(), randomized=True),
    dict(name='DefaultRandomSampler.__call__', kind='object', mod=A + 'optimizers.eagle_strategy', cls='DefaultRandomSampler', seeds=(),
         methods=(('__call__', ('seed',)),), factories=(), randomized=True),
] + [
    dict(name='random_sample.' + f, kind='function', mod=A + 'random.random_sample', qual=f, seeds=('rng',), randomized=True)
    for f in ('sample_uniform', 'sample_bernoulli', 'sample_integer', 'sample_categorical', 'sample_discrete', 'sample_parameters',
              'shuffle_list')
] + [
    # ---- seeded benchmark chain: BenchmarkStateFactory(seed) -> PolicySuggester -> InRamDesignerPolicy(seed) -> designer_factory(problem, seed=seed)
    dict(name='InRamDesignerPolicy', kind='object', mod=A + 'policies.designer_policy', cls='InRamDesignerPolicy', seeds=('seed',),
         methods=('_initialize_designer', 'suggest'), factories=(), randomized=False, forwards_only=True, replay_alias='benchmark'),
    dict(name='PolicySuggester.from_designer_factory', kind='function', mod=B + 'benchmark_state', qual='PolicySuggester.from_designer_factory',
         seeds=('seed',), randomized=False, forwards_only=True, replay_alias='benchmark'),
    dict(name='DesignerBenchmarkStateFactory.__call__', kind='object', mod=B + 'benchmark_state', cls='DesignerBenchmarkStateFactory', seeds=(),
         methods=(('__call__', ('seed',)),), factories=(), randomized=False, forwards_only=True, replay='benchmark'),
    dict(name='ExperimenterDesignerBenchmarkStateFactory.__call__', kind='object', mod=B + 'benchmark_state',
         cls='ExperimenterDesignerBenchmarkStateFactory', seeds=(), methods=(('__call__', ('seed',)),), factories=(), randomized=False,
         forwards_only=True),
    dict(name='PolicyBenchmarkStateFactory.__call__', kind='object', mod=B + 'benchmark_state', cls='PolicyBenchmarkStateFactory', seeds=(),
         methods=(('__call__', ('seed',)),), factories=(), randomized=False, forwards_only=True),
    dict(name='EvaluateAndAddPriorStudy.run', kind='object', mod=B + 'benchmark_runner', cls='EvaluateAndAddPriorStudy', seeds=('seed',),
         methods=('run',), factories=(), randomized=False, forwards_only=True),
    # ---- runner protocols / suggester without a seed of their own: only the ambient obligation
    dict(name='PolicySuggester.suggest', kind='object', mod=B + 'benchmark_state', cls='PolicySuggester', seeds=(), methods=('suggest',),
         factories=(), randomized=False, no_seed=True),
] + [
    dict(name=c + '.run', kind='object', mod=B + 'benchmark_runner', cls=c, seeds=(), methods=('run',), factories=(), randomized=False,
         no_seed=True)
    for c in ('GenerateAndEvaluate', 'GenerateSuggestions', 'FillActiveTrials', 'EvaluateActiveTrials', 'BenchmarkRunner')
]

INFORMATIONAL = [   # analysed and reported as notes only: not among the property's seeded designers
    dict(name='create_gaussian_scalarizing_designer', kind='function', mod=D + 'scalarizing_designer', qual='create_gaussian_scalarizing_designer',
         seeds=('seed',), randomized=True),
]


def analyse(entry):
    """-> (summary dict, seeds found, converged, methods analysed, error text|None)"""
    eng = rf.Engine(EXPAND, SINKS)
    state = {'found': set(), 'methods': [], 'missing': []}

    def body(e):
        state['found'], state['methods'], state['missing'] = set(), [], []
        if entry['kind'] == 'function':
            _, found = e.entry_function(entry['mod'], entry['qual'], entry['seeds'])
            state['found'] |= set(found)
            state['methods'].append(entry['qual'])
            return
        ov, found = e.entry_construct(entry['mod'], entry['cls'], entry['seeds'])
        state['found'] |= set(found)
        state['methods'].append('__init__')
        ci = ModuleInfo.get(entry['mod']).find_class(entry['cls'])
        for m in entry['methods']:
            mname, mseeds = (m, ()) if isinstance(m, str) else m
            out, found = e.entry_method(ov, mname, mseeds)
            c, fn = e.find_method(ci, mname)
            if fn is None:
                state['missing'].append(mname)
                continue
            state['found'] |= set(found)
            if mseeds and not found:
                state['missing'].append('%s(seed)' % mname)
            state['methods'].append(mname)
        for f in entry.get('factories', ()):
            c, fn = e.find_method(ci, f)
            if fn is None:
                continue
            seedp = [a.arg for a in fn.args.args + fn.args.kwonlyargs if rf.SEEDLIKE.search(a.arg)]
            _, found = e.entry_function(c.mod.dotted, c.qualname + '.' + f, tuple(seedp),
                                        first=rf.AV(refs=frozenset([('class', entry['mod'], entry['cls'])])))
            state['found'] |= set(found)
            state['methods'].append(f)

    converged, rounds = rf.run_to_fixpoint(eng, body)
    s = eng.summary()
    s['rounds'] = rounds
    return s, sorted(state['found']), converged, state['methods'], state['missing']


def decide(entry, s, found):
    """-> (ambient violations, seed violations, seed assumptions)"""
    amb = list(s['ambient'])
    seedv, assumptions = [], []
    for c in s['rng_ctors']:
        if c['argless']:
            seedv.append('%s constructed without a seed at %s: `%s`' % (c['ctor'], c['where'], c['call']))
        elif not c['tainted'] and not c['unknown']:
            seedv.append('the seed argument of `%s` at %s does not depend on the seed/rng parameter' % (c['call'], c['where']))
        elif not c['tainted']:
            assumptions.append('RNG argument of `%s` at %s has untracked provenance: assumed seed-derived' % (c['call'], c['where']))
        if c['clock']:
            pass   # reported through the ambient obligation (wall clock escaping into an RNG)
    for f in s['forwards']:
        if '<entry ' in f['where'] or f['tainted'] or f['own_default']:
            continue
        if f['unknown']:
            assumptions.append('seed-like argument `%s` of `%s` at %s has untracked provenance: assumed seed-derived' % (f['param'], f['call'], f['where']))
        else:
            seedv.append('seed-like argument `%s` in `%s` at %s is %s, not derived from the seed/rng parameter'
                         % (f['param'], f['call'], f['where'], 'None' if f['is_none'] else 'a seed-independent value'))
    used = (any(c['tainted'] for c in s['rng_ctors']) or any(f['tainted'] and '<entry ' not in f['where'] for f in s['forwards'])
            or bool(s['rng_uses']) or bool(s['taint_passed']))
    if found and not used:
        seedv.append('the seed parameter %s flows to no RNG construction, RNG use or seed-accepting callee in the closure (the seed is dropped)' % found)
    return amb, seedv, assumptions


_CAND = {}


def candidate_replay(key):
    if key not in _CAND:
        res = replay_designers([key])
        _CAND[key] = res.get(key) if 'error' not in res else res
    return _CAND[key]


def _fresh_experimenter_obligation(chk):
    import ast as _ast
    dotted, cn, fattr = 'vizier._src.benchmarks.runners.benchmark_state', 'ExperimenterDesignerBenchmarkStateFactory', 'experimenter_factory'
    name = 'C14.%s.fresh_experimenter_per_state' % cn
    t0 = time.time()
    try:
        ci = ModuleInfo.get(dotted).find_class(cn)
    except (KeyError, FileNotFoundError) as e:
        chk.error('extract.%s' % cn, 'class not found in the current tree: %r' % (e,))
        return
    if ci is None or '__call__' not in ci.methods:
        chk.error('extract.%s' % cn, 'class or its __call__ not found in the current tree')
        return
    chk.function(dotted, cn + '.__call__')

    def calls_factory(fn):
        return [n.lineno for n in _ast.walk(fn) if isinstance(n, _ast.Call) and isinstance(n.func, _ast.Attribute)
                and n.func.attr == fattr and isinstance(n.func.value, _ast.Name) and n.func.value.id == 'self']
    # methods reachable from __call__ through self.<method>() calls
    reach, todo = [], ['__call__']
    while todo:
        m = todo.pop()
        if m in reach or m not in ci.methods:
            continue
        reach.append(m)
        for n in _ast.walk(ci.methods[m]):
            if isinstance(n, _ast.Call) and isinstance(n.func, _ast.Attribute) and isinstance(n.func.value, _ast.Name) and n.func.value.id == 'self':
                todo.append(n.func.attr)
    in_call = [(m, calls_factory(ci.methods[m])) for m in reach if calls_factory(ci.methods[m])]
    elsewhere = [(m, calls_factory(fn)) for m, fn in ci.methods.items() if m not in reach and calls_factory(fn)]
    detail = {'factory_invoked_on_the___call___path': in_call, 'factory_invoked_elsewhere (construction time / cached)': elsewhere}
    if in_call and not elsewhere:
        chk.obligation(name, cn + '.__call__', 'frame', report.PROVED, time.time() - t0, detail=detail)
        return
    # the product of the factory is built outside __call__ (cached) or not built at all on the __call__ path
    cmd = ['/venv/bin/python', os.path.join(report.VERIF, 'replay', 'c14_fresh_state.py')]
    env = dict(os.environ)
    env['VERIF_REPO'] = source.REPO
    rr = None
    try:
        p = subprocess.run(cmd, capture_output=True, text=True, timeout=900, env=env, cwd=report.VERIF)
        rr = json.loads([l for l in p.stdout.splitlines() if l.startswith('{')][-1])
    except Exception as e:      # replay trouble is never a verdict
        rr = {'reproduced': None, 'error': repr(e)}
    model = '%s.__call__ does not invoke self.%s() for every state (%s)' % (
        cn, fattr, 'the factory is invoked in %s instead' % [m for m, _ in elsewhere] if elsewhere else 'it is never invoked')
    if rr.get('reproduced'):
        chk.obligation(name, cn + '.__call__', 'frame', report.VIOLATED, time.time() - t0, detail=detail, model=model,
                       replay={'native_run': rr, 'how_to_replay': 'VERIF_REPO=<tree> /venv/bin/python /verif/replay/c14_fresh_state.py'}, reproduced=True)
    else:
        chk.obligation(name, cn + '.__call__', 'frame', report.UNDECIDED, time.time() - t0,
                       detail=dict(detail, reason=model + '; the native witness did not show a dependence on earlier states', native_run=rr))


def replay_designers(which, timeout=600):
    """Run the two-process replay; -> dict name -> result dict, or {'error': text}."""
    cmd = ['/venv/bin/python', os.path.join(report.VERIF, 'replay', 'c14_twoproc.py'), '--designers', ','.join(which)]
    env = dict(os.environ)
    env['VERIF_REPO'] = source.REPO
    try:
        p = subprocess.run(cmd, capture_output=True, text=True, timeout=timeout, env=env, cwd=report.VERIF)
    except subprocess.TimeoutExpired:
        return {'error': 'replay timed out'}
    for line in reversed(p.stdout.strip().splitlines()):
        if line.startswith('{'):
            try:
                return json.loads(line)
            except ValueError:
                break
    return {'error': 'replay driver produced no result: rc=%s %s' % (p.returncode, (p.stderr or p.stdout)[-400:])}


def main(tier):
    chk = report.Check(PID, tier, level='proof',
                       technique='read-frame obligations decided by abstract interpretation of the real AST: class-aware call-graph '
                                 'closure, seed taint, None-ness of the seed for guard pruning, sink analysis of wall-clock reads')
    chk.trust('pyvc.readframe abstract interpreter (class-aware closure, taint, guard evaluation)')
    chk.trust('python ast of the current /repo working tree')
    chk.assume('unresolved callees (listed per entry in the evidence) are deterministic functions of their arguments and receiver')
    chk.assume('numpy / jax / scipy.qmc / evojax seeded generators are deterministic functions of their seed')
    chk.assume('modules outside the expanded closure (pyvizier data model, converters, vizier._src.jax models, json utils) are deterministic and seed-free')
    chk.assume('every syntactic path not pruned by a None-ness guard on the seed is treated as feasible')
    chk.assume('wall-clock values whose only sinks are logging, metadata strings, telemetry (jax.monitoring) and vizier.utils.profiler do not influence suggestions')
    per_entry = {}
    violated_replayable = {}
    t_all = time.time()
    for entry in ENTRIES:
        name = entry['name']
        t0 = time.time()
        try:
            s, found, converged, methods, missing = analyse(entry)
        except (KeyError, FileNotFoundError) as e:
            chk.error('extract.%s' % name, 'entry point not found in the current tree: %r' % (e,))
            continue
        except (RecursionError, SyntaxError, AttributeError, TypeError, ValueError, IndexError, AssertionError) as e:
            chk.error('engine.%s' % name, 'read-frame engine failed on this entry (checker error, not a violation): %r' % (e,))
            continue
        dt = time.time() - t0
        if entry['kind'] == 'function':
            chk.function(entry['mod'], entry['qual'])
        else:
            eng = rf.Engine(EXPAND, SINKS)
            ci = ModuleInfo.get(entry['mod']).find_class(entry['cls'])
            for m in methods:
                c, fn = eng.find_method(ci, m)
                if fn is not None:
                    chk.function(c.mod.dotted, c.qualname + '.' + m)
        fn_label = entry.get('qual') or entry['cls']
        # ---- vacuity guards
        if missing:
            chk.error('vacuity.%s.methods' % name, 'entry methods no longer present / no longer accept a seed: %s' % missing)
        if not s['closure']:
            chk.error('vacuity.%s.closure' % name, 'empty call-graph closure')
            continue
        if not converged:
            chk.obligation('C14.%s.no_ambient_nondeterminism' % name, fn_label, 'frame', report.UNDECIDED, dt,
                           detail='abstract object states did not stabilise in %d rounds' % s['rounds'])
            continue
        wants_seed = not entry.get('no_seed')
        if wants_seed and not found:
            chk.error('vacuity.%s.seed_parameter' % name, 'no seed/rng parameter %s found in the entry signature' % (entry['seeds'],))
            continue
        if entry.get('randomized') and not s['rng_ctors'] and not s['rng_uses']:
            amb, seedv, _ = decide(entry, s, found)
            if not seedv and not amb:
                chk.error('vacuity.%s.rng' % name, 'closure of a randomised entry contains neither an RNG construction nor an RNG use')
                continue
        amb, seedv, seed_assumptions = decide(entry, s, found)
        for a in s['assumptions'] + seed_assumptions:
            chk.assume(a)
        per_entry[name] = {
            'closure_size': len(s['closure']), 'closure': s['closure'][:400], 'rounds': s['rounds'], 'seed_parameters': found,
            'methods': methods, 'rng_constructions': [{'ctor': c['ctor'], 'where': c['where'], 'tainted': c['tainted']} for c in s['rng_ctors']],
            'rng_uses': len(s['rng_uses']), 'seed_forwarding_sites': len([f for f in s['forwards'] if '<entry ' not in f['where']]),
            'excluded': s['excluded'], 'unresolved_callees_assumed_deterministic': s['unresolved'][:200],
        }
        detail_common = 'closure=%d functions, %d RNG constructions, %d RNG uses, %d seed-forwarding sites, %d guarded/sink exclusions, %d unresolved callees (assumptions)' % (
            len(s['closure']), len(s['rng_ctors']), len(s['rng_uses']), per_entry[name]['seed_forwarding_sites'], len(s['excluded']), len(s['unresolved']))
        # ---- obligation 1
        oname = 'C14.%s.no_ambient_nondeterminism' % name
        cands = s.get('candidates', [])
        if cands and not amb:
            # candidate sources (hash() of a value whose type the frame analysis does not track): decided by the two-process
            # replay of this entry (process B runs under a different PYTHONHASHSEED); no divergence / no replay -> assumption
            key = entry.get('replay') or entry.get('replay_alias')
            r = candidate_replay(key) if key else None
            diverged = bool(r) and not r.get('error') and (r.get('same_seed_equal') is False or r.get('different_seed_differs') is False)
            if diverged:
                amb = cands
            else:
                for c in cands:
                    chk.assume('%s at %s: assumed process-independent (%s)' % (
                        c['what'], c['where'], 'two-process replay of %s did not diverge' % key if r and not r.get('error') else 'no native replay available'))
        if amb:
            model = '\n'.join('%s: %s [%s]' % (a['kind'], a['what'], a['where']) for a in amb)
            chk.obligation(oname, fn_label, 'frame', report.VIOLATED, dt, detail=detail_common + '; ambient sources reachable with a non-None seed: ' + model[:1500],
                           model=model, replay={'entry': entry, 'ambient': amb, 'how_to_replay': 'VERIF_REPO=<tree> /venv/bin/python /verif/replay/c14_twoproc.py --designers %s' % (entry.get('replay') or entry.get('replay_alias') or '<not importable in this sandbox>')},
                           reproduced=None)
            if entry.get('replay') or entry.get('replay_alias'):
                violated_replayable.setdefault(entry.get('replay') or entry['replay_alias'], []).append(len(chk.obligations) - 1)
        else:
            chk.obligation(oname, fn_label, 'frame', report.PROVED, dt, detail=detail_common)
        # ---- obligation 2
        if wants_seed:
            oname = 'C14.%s.seed_reaches_rng' % name
            if seedv:
                model = '\n'.join(seedv)
                chk.obligation(oname, fn_label, 'frame', report.VIOLATED, 0.0, detail=detail_common + '; ' + model[:1500], model=model,
                               replay={'entry': entry, 'seed_violations': seedv, 'how_to_replay': 'VERIF_REPO=<tree> /venv/bin/python /verif/replay/c14_twoproc.py --designers %s' % (entry.get('replay') or entry.get('replay_alias') or '<not importable in this sandbox>')},
                               reproduced=None)
                if entry.get('replay') or entry.get('replay_alias'):
                    violated_replayable.setdefault(entry.get('replay') or entry['replay_alias'], []).append(len(chk.obligations) - 1)
            else:
                chk.obligation(oname, fn_label, 'frame', report.PROVED, 0.0, detail=detail_common)

    # ---- informational (outside the property's list of seeded designers): reported, never an obligation
    for entry in INFORMATIONAL:
        try:
            s, found, converged, methods, missing = analyse(entry)
            amb, seedv, _ = decide(entry, s, found)
            if amb or seedv:
                chk.note('[informational, not in the property\'s list of seeded designers] %s: %s' % (
                    entry['name'], '; '.join([a['what'] + ' at ' + a['where'] for a in amb] + seedv)[:600]))
        except Exception as e:       # informational only
            chk.note('[informational] %s not analysed: %r' % (entry['name'], e))
    chk.extra['entries'] = per_entry
    chk.extra['frame_time_s'] = round(time.time() - t_all, 2)

    # ---- replay: violations of importable designers are replayed in two fresh processes (any tier)
    if violated_replayable:
        res = replay_designers(sorted(violated_replayable))
        for key, idxs in violated_replayable.items():
            r = res.get(key) if 'error' not in res else None
            diverged = bool(r) and not r.get('error') and (r.get('same_seed_equal') is False or r.get('different_seed_differs') is False)
            for i in idxs:
                o = chk.obligations[i]
                if diverged:
                    _mark_reproduced(chk, o, r)
                else:
                    _attach_replay_result(o, r if r else res)

    # ---- a benchmark state factory that owns an experimenter FACTORY must build a fresh experimenter for every state:
    # an experimenter is stateful (seeded noise keeps its position in the stream), so one object shared by the states of
    # one factory makes a seeded study depend on the studies produced before it in the same process
    _fresh_experimenter_obligation(chk)

    # ---- restore path: load(metadata) must make every random generator a function of the restored state
    from pyvc import rngload
    RESTORABLE = [('vizier._src.algorithms.designers.quasi_random', 'QuasiRandomDesigner'),
                  ('vizier._src.algorithms.designers.eagle_strategy.eagle_strategy', 'EagleStrategyDesigner'),
                  ('vizier._src.algorithms.designers.grid', 'GridSearchDesigner'),
                  ('vizier._src.algorithms.designers.cmaes', 'CMAESDesigner'),
                  ('vizier._src.algorithms.evolution.templates', 'CanonicalEvolutionDesigner')]
    chk.assume('restore path: an RNG attribute is recognised by a generator-constructor call in __init__ (table in pyvc/rngload.py); '
               'GridSearchDesigner / CMAESDesigner / CanonicalEvolutionDesigner own no such attribute (their RNG state is covered by C13)')
    for dotted, cn in RESTORABLE:
        try:
            obs = rngload.obligations(dotted, cn)
        except (KeyError, FileNotFoundError) as e:
            chk.error('extract.%s.load' % cn, 'class not found in the current tree: %r' % (e,))
            continue
        for attr, ok, detail in obs:
            chk.function(dotted, cn + '.load')
            name = 'C14.%s.load.rng_restored.%s' % (cn, attr)
            if ok:
                chk.obligation(name, cn + '.load', 'frame', report.PROVED, 0.0, detail=detail)
            else:
                chk.obligation(name, cn + '.load', 'frame', report.VIOLATED, 0.0, detail=detail,
                               model='%s.load() leaves the random generator self.%s as the constructor built it (bound in %s): on the restore path '
                                     '(designer_factory(problem) without a seed, then load) it is seeded from ambient state although the seed is stored '
                                     'in the study metadata' % (cn, attr, detail['bound_in']))

    # ---- thorough tier: the two-process replay as a bounded stand-in
    if tier == 'thorough':
        keys = sorted({e['replay'] for e in ENTRIES if e.get('replay')})
        res = replay_designers(keys)
        if 'error' in res:
            chk.bounded_standin('C14.two_process_replay', 'two fresh processes, 3 rounds x 3 suggestions', 'error', detail=res['error'])
            chk.error('replay.driver', res['error'])
        else:
            for key in keys:
                r = res.get(key, {'error': 'no result'})
                name = next(e['name'] for e in ENTRIES if e.get('replay') == key)
                if r.get('error'):
                    chk.bounded_standin('C14.%s.two_process_replay' % name, 'not run', 'skipped', detail=r['error'][:300])
                    continue
                ok = r['same_seed_equal'] and r['different_seed_differs'] is not False
                chk.bounded_standin('C14.%s.two_process_replay' % name,
                                    'one problem (2 DOUBLE, 1 INTEGER, 1 DISCRETE, 1 CATEGORICAL; CMA-ES/benchmark: 2 DOUBLE), 3 rounds (eagle: 9) x 3 suggestions, seeds 7 vs 7 vs 8, '
                                    'process B: different PYTHONHASHSEED, perturbed numpy/python global RNG, +1.1 s wall clock',
                                    'agree' if ok else 'DIVERGED', detail=r)
                if not ok:
                    chk.obligation('C14.%s.two_process_replay_divergence' % name, name, 'replay', report.VIOLATED, r.get('time_s', 0.0),
                                   detail='two fresh processes with the same seed disagree (or different seeds agree): %s' % json.dumps(r)[:800],
                                   model=json.dumps(r, indent=1), replay={'replay_result': r, 'how_to_replay': 'VERIF_REPO=%s /venv/bin/python /verif/replay/c14_twoproc.py --designers %s' % (source.REPO, key)},
                                   reproduced=True)
    return chk.finish(min_obligations=40)


def _attach_replay_result(o, r):
    try:
        body = json.load(open(o['replay']))
        body['replay_result'] = r
        body['reproduced_on_real_code'] = False if (r and not r.get('error')) else None
        json.dump(body, open(o['replay'], 'w'), indent=1, default=str)
    except (OSError, ValueError, KeyError):
        pass


def _mark_reproduced(chk, o, r):
    """The frame violation was confirmed natively: rewrite its VIOLATION line without the no-failing-input-found suffix."""
    try:
        body = json.load(open(o['replay']))
        body['replay_result'] = r
        body['reproduced_on_real_code'] = True
        json.dump(body, open(o['replay'], 'w'), indent=1, default=str)
    except (OSError, ValueError, KeyError):
        pass
    suffix = ' no-failing-input-found'
    for i, line in enumerate(chk.violations):
        if ('obligation=%s' % o['obligation']) in line and line.endswith(suffix):
            chk.violations[i] = line[:-len(suffix)]
