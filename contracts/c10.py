"""C10 -- metadata is an exact last-writer-wins key-value store across namespaces.

Deductive core (obligations generated from the current /repo source on every run):
  * merge_study_metadata / merge_trial_metadata  : real AST, symbolic list lengths, loop invariants over a symbolic
    dict (pyvc/symdict.py), `sorted(dict.values(), key=...)` modelled as "a permutation of the values, ascending by key";
    postconditions over the WHOLE map (last_writer_wins, sorted_unique, wrong_trial_ignored, frame, no_raise);
    a non-proved obligation triggers the bounded model query (same engine, lengths <= 2, no quantifiers) whose `sat`
    model is replayed on the real function (replay/c10_replay.py merge).
  * NestedDictRAMDataStore.update_metadata       : all-or-nothing as a path obligation (pyvc/paths.py fixed point): no exit
    by exception after a mutation of store-resident data.  False today (DESIGN 10 row 7) -> known finding + residual.
  * VizierServicer.UpdateMetadata                : real AST against the abstract DataStore contract (Appendix A) and against
    the exception interface derived from the real RAM update_metadata (KeyError(int) -> ';'.join TypeError: row 7).
  * Metadata.ns/abs_ns/__setitem__/__getitem__/attach/all_items/namespaces : real AST on symbolic component strings.
  * _SerializableDesignerPolicyBase.suggest/dump : namespace write frame (data-flow obligation on the AST).
Bounded stand-in (never counted as proved): Namespace.encode/_parse inverse + injectivity, exhaustive over a small alphabet
on the REAL functions (row 11: components ending in a backslash collide).
"""
import ast
import json
import re
import time

import z3

from pyvc import engine as E, models as M, protomodel as pm, report, source, symdict as SD, ckit
from pyvc.ckit import QA, QE, QA2, conc
from pyvc.engine import Obj, ExcObj, PyRaise, Builtin, Unsupported
from pyvc.protomodel import Msg, SymList, Str
from pyvc.source import ModuleInfo

MDU = 'vizier._src.pyvizier.oss.metadata_util'
COMMON = 'vizier._src.pyvizier.shared.common'
RAM = 'vizier._src.service.ram_datastore'
SQL = 'vizier._src.service.sql_datastore'
SVC = 'vizier._src.service.vizier_service'
POLICY = 'vizier._src.algorithms.policies.designer_policy'
CACHES = 'vizier._src.algorithms.policies.trial_caches'
RES = 'vizier._src.service.resources'

acc = pm.accessor


def schema(fq):
    return pm.registry().msgs[fq]


KV = lambda: schema('vizier.KeyValue')
UMU = lambda: schema('vizier.UnitMetadataUpdate')
SPEC = lambda: schema('vizier.StudySpec')
TRIAL = lambda: schema('vizier.Trial')

KEY = SD.Spec(('tuple', ['str', 'str']))


def key_of(t):
    """(ns, key) of a packed KeyValue."""
    return KEY.sort.mk(acc(KV(), 'ns')(t), acc(KV(), 'key')(t))


def key_lt(a, b):
    """strict lexicographic order on the (ns, key) of two packed KeyValues (models.str_lt on the components)."""
    return M.tuple_lt(None, (acc(KV(), 'ns')(a), acc(KV(), 'key')(a)), (acc(KV(), 'ns')(b), acc(KV(), 'key')(b)))


# =========================================================================================== merge_*_metadata
class MergeShape:
    """merge_study_metadata / merge_trial_metadata and every module-level helper they call (inlined by the engine).
    Nothing is bound by name or position inside the bodies: loops are recognised by their ROLE at run time (what they
    iterate over), the accumulator by its type (the dict-valued local of the frame that owns the loop)."""

    def __init__(self, fname):
        self.fname = fname
        self.mod = ModuleInfo.get(MDU)
        self.fn = self.mod.funcs[fname]
        self.params = [a.arg for a in self.fn.args.args]
        self.trial = fname == 'merge_trial_metadata'
        # call closure inside the module: the functions whose loops may need a contract
        seen, todo = {}, [self.fn]
        while todo:
            f = todo.pop()
            if f.name in seen:
                continue
            seen[f.name] = f
            for n in ast.walk(f):
                if isinstance(n, ast.Call) and isinstance(n.func, ast.Name) and n.func.id in self.mod.funcs:
                    todo.append(self.mod.funcs[n.func.id])
        self.closure = seen


def sel_fn(shape, run):
    """update j is addressed to this container (trial: trial_id == trial.id at entry; study: always)."""
    if not shape.trial:
        return lambda u: z3.BoolVal(True)
    tid = acc(TRIAL(), 'id')(run.c0)
    return lambda u: acc(UMU(), 'trial_id')(u) == tid


def datum_fn(shape):
    return (lambda u: acc(UMU(), 'metadatum')(u)) if shape.trial else (lambda u: u)


def _accumulator(fr):
    """the dict-valued local of the frame that owns the loop (a concrete dict still being built, or a symbolic one)."""
    names = [k for k, v in fr.env.items() if isinstance(v, (M.PyDict, SD.SymMap))]
    return names[0] if len(names) == 1 else None


def _loop_role(run, xs):
    """'old_items': the loop walks the container's own metadata; 'updates': it walks the list of updates."""
    if not isinstance(xs, SymList):
        return None
    if xs.arr.eq(run.md0.arr) and (xs.n is run.md0.n or (z3.is_expr(xs.n) and xs.n.eq(run.md0.n))):
        return 'old_items'
    if xs.arr.eq(run.upd0.arr) and (xs.n is run.upd0.n or (z3.is_expr(xs.n) and xs.n.eq(run.upd0.n))):
        return 'updates'
    return None


def merge_loop_invariant(it, fr, ctx):
    """Loop contract of every loop reachable from merge_*_metadata, selected by the loop's role (Appendix F):
       old_items:  d = view(md[:i])                                     (dom = keys of md[:i], src[k] = last index with key k)
       updates:    d = view(md) (+) view([datum(u) | u in updates[:i], sel(u)])"""
    run = it.run
    shape = run.shape
    VAL = SD.Spec(KV())
    xs = ctx.iter
    role = _loop_role(run, xs)
    dn = _accumulator(fr)
    if role is None or dn is None:
        return []                     # not a loop of the merge algorithm: no facts (its effects stay unconstrained)
    if ctx.phase == 'init':
        if isinstance(fr.env[dn], M.PyDict):
            fr.env[dn] = SD.lift(it, fr.env[dn], KEY, VAL)      # the dict becomes symbolic from here on
        if role == 'updates':
            run.d_before_updates = fr.env[dn].copy()
            SD.reset_src(fr.env[dn])                            # ghost: provenance now counts writes of this loop only
    if ctx.phase == 'head':
        SD.set_clock(run, ctx.i)
    d = fr.env[dn]
    if not isinstance(d, SD.SymMap):
        return []
    i = ctx.i
    k = z3.Const('k!m', KEY.sort)
    j = z3.Int('j!m')
    if role == 'old_items':
        return [('old_items.dom_src', z3.ForAll([k], z3.Implies(d.dom[k], z3.And(d.src[k] >= 0, d.src[k] < i, key_of(xs.arr[d.src[k]]) == k,
                                                                                     d.val[k] == xs.arr[d.src[k]])))),
                ('old_items.covered', z3.ForAll([j], z3.Implies(z3.And(j >= 0, j < i), z3.And(d.dom[key_of(xs.arr[j])], d.src[key_of(xs.arr[j])] >= j))))]
    d0 = run.d_before_updates
    sel, datum = sel_fn(shape, run), datum_fn(shape)
    u = lambda ix: xs.arr[ix]
    return [('updates.old', z3.ForAll([k], z3.Implies(d.src[k] == -1, z3.And(d.dom[k] == d0.dom[k], d.val[k] == d0.val[k])))),
            ('updates.new', z3.ForAll([k], z3.Implies(d.src[k] != -1, z3.And(d.src[k] >= 0, d.src[k] < i, sel(u(d.src[k])), key_of(datum(u(d.src[k]))) == k,
                                                                                 d.dom[k], d.val[k] == datum(u(d.src[k])))))),
            ('updates.covered', z3.ForAll([j], z3.Implies(z3.And(j >= 0, j < i, sel(u(j))), d.src[key_of(datum(u(j)))] >= j)))]


def install_merge_loops(shape):
    """the same role-dispatching contract for every loop of the function and of the module-level helpers it calls"""
    for name, f in shape.closure.items():
        for k in range(1, len([n for n in ast.walk(f) if isinstance(n, (ast.For, ast.While))]) + 1):
            E.LOOPS[(MDU, name, k)] = E.LoopSpec(merge_loop_invariant)


_LOOP_NAME = re.compile(r'^(?:C10\.)?[\w.]+\.loop\d+\.(old_items|updates)\.(\w+)\.(init|preserve)$')


def merge_rename(shape):
    """obligation names by role, independent of the function that happens to contain the loop"""
    def rename(n):
        m = _LOOP_NAME.match(n)
        if m:
            return 'C10.%s.loop.%s.%s.%s' % (shape.fname, m.group(1), m.group(2), m.group(3))
        return n if n.startswith('C10.') else 'C10.' + n
    return rename


def merge_entry(shape, n0=None, m=None, string_values=False):
    """entry(it): symbolic container and update list; n0/m = concrete lengths for the bounded model query."""
    def entry(it):
        run = it.run
        run.shape = shape
        csch = TRIAL() if shape.trial else SPEC()
        usch = UMU() if shape.trial else KV()
        c = Msg.from_term(csch, z3.Const('container0', pm.msg_sort(csch)))
        run.c0 = c.pack()
        md_arr = z3.Const('md0', z3.ArraySort(z3.IntSort(), pm.msg_sort(KV())))
        md_n = z3.IntVal(n0) if n0 is not None else z3.Int('n0')
        c.f['metadata'] = SymList(md_n, md_arr, KV(), owner=(c, 'metadata'))
        run.c0 = c.pack()
        un = z3.IntVal(m) if m is not None else z3.Int('m')
        ua = z3.Const('upd', z3.ArraySort(z3.IntSort(), pm.msg_sort(usch)))
        new = SymList(un, ua, usch)
        run.assume(md_n >= 0)
        run.assume(un >= 0)
        run.container, run.new = c, new
        run.md0 = SymList(md_n, md_arr, KV())
        run.upd0 = SymList(un, ua, usch)
        if n0 is None:
            for ax in SD.str_order_axioms():
                run.axiom(ax)
        else:
            strs = []
            for i in range(n0):
                strs += [acc(KV(), 'ns')(md_arr[i]), acc(KV(), 'key')(md_arr[i])]
            datum = datum_fn(shape)
            for i in range(m):
                strs += [acc(KV(), 'ns')(datum(ua[i])), acc(KV(), 'key')(datum(ua[i]))]
            run.order_terms = strs
            for g in SD.ground_str_order(strs):
                run.assume(g)
            if string_values:
                vnum = KV().fields['value'].number
                for i in range(n0):
                    run.assume(acc(KV(), 'case__a_value')(md_arr[i]) == vnum)
                for i in range(m):
                    run.assume(acc(KV(), 'case__a_value')(datum(ua[i])) == vnum)
        return it.invoke(E.FuncVal(shape.mod, shape.fn), [c, new], {})
    return entry


def merge_post(shape):
    P = 'C10.%s.' % shape.fname

    def post(p):
        run = p.run
        if p.kind != 'return':
            return [(P + 'no_raise', z3.BoolVal(False))]
        R = run.container.get('metadata')
        U, M0 = run.upd0, run.md0
        sel, datum = sel_fn(shape, run), datum_fn(shape)
        csch = TRIAL() if shape.trial else SPEC()
        obs = [(P + 'no_raise', z3.BoolVal(True))]
        # result strictly ascending by (ns, key)  (=> unique per (ns, key))
        obs.append((P + 'sorted_unique', QA2(R.n, lambda i, j: key_lt(R.arr[i], R.arr[j]), 'su')))
        # view(R) = view(md0) (+) view(selected updates), right-biased by list position, over the whole map
        def sound(pp):
            e = R.arr[pp]
            k = key_of(e)
            from_upd = QE(U.n, lambda j: z3.And(sel(U.arr[j]), key_of(datum(U.arr[j])) == k, e == datum(U.arr[j]),
                                                QA(U.n, lambda j2: z3.Implies(j2 > j, z3.Not(z3.And(sel(U.arr[j2]), key_of(datum(U.arr[j2])) == k))), 'lw2')), 'lw1')
            no_upd = QA(U.n, lambda j: z3.Not(z3.And(sel(U.arr[j]), key_of(datum(U.arr[j])) == k)), 'lw3')
            from_old = QE(M0.n, lambda j: z3.And(key_of(M0.arr[j]) == k, e == M0.arr[j],
                                                 QA(M0.n, lambda j2: z3.Implies(j2 > j, key_of(M0.arr[j2]) != k), 'lw5')), 'lw4')
            return z3.Or(from_upd, z3.And(no_upd, from_old))
        complete_u = QA(U.n, lambda j: z3.Implies(sel(U.arr[j]), QE(R.n, lambda pp: key_of(R.arr[pp]) == key_of(datum(U.arr[j])), 'lw7')), 'lw6')
        complete_o = QA(M0.n, lambda j: QE(R.n, lambda pp: key_of(R.arr[pp]) == key_of(M0.arr[j]), 'lw9'), 'lw8')
        obs.append((P + 'last_writer_wins', z3.And(R.n >= 0, QA(R.n, sound, 'lw0'), complete_u, complete_o)))
        # every element of the result is an old element or a selected update (an update for another trial never lands)
        obs.append((P + 'wrong_trial_ignored', QA(R.n, lambda pp: z3.Or(
            QE(M0.n, lambda j: R.arr[pp] == M0.arr[j], 'wt1'),
            QE(U.n, lambda j: z3.And(sel(U.arr[j]), R.arr[pp] == datum(U.arr[j])), 'wt2')), 'wt0')))
        # everything else in the container, and the update list itself, unchanged
        obs.append((P + 'frame', z3.And(ckit.same_fields_except(csch, run.c0, run.container.pack(), ('metadata',)),
                                        run.new.n == U.n, run.new.arr == U.arr)))
        return obs
    return post


def merge_model_inputs(shape, p, model, n0, m):
    """concrete replay inputs from a model of a bounded instance."""
    run = p.run
    md, ua = run.md0.arr, run.upd0.arr
    datum = datum_fn(shape)
    kvf = lambda t: [acc(KV(), 'ns')(t), acc(KV(), 'key')(t), acc(KV(), 'value')(t)]
    terms = []
    for i in range(n0):
        terms += kvf(md[i])
    for i in range(m):
        terms += kvf(datum(ua[i]))
    tid = None
    if shape.trial:
        tid = acc(TRIAL(), 'id')(run.c0)
        terms += [tid] + [acc(UMU(), 'trial_id')(ua[i]) for i in range(m)]
    name = ckit.concretize_strings(model, terms, order=M.str_lt, ordered_terms=getattr(run, 'order_terms', []))
    payload = {'which': 'trial' if shape.trial else 'study',
               'md0': [[name(x) for x in kvf(md[i])] for i in range(n0)],
               'updates': [[name(acc(UMU(), 'trial_id')(ua[i])) if shape.trial else None] + [name(x) for x in kvf(datum(ua[i]))] for i in range(m)],
               'trial_id': name(tid) if tid is not None else None}
    return payload


def merge_bounded(shape, names, tier):
    """bounded model query for the open obligations `names` of one merge function.  Returns {name: {...}} for definite sat."""
    found, spurious = {}, {}
    want = {n for n in names if n.startswith('C10.%s.' % shape.fname) and '.loop' not in n}
    if not want:
        want = {'C10.%s.%s' % (shape.fname, c) for c in ('sorted_unique', 'last_writer_wins', 'wrong_trial_ignored', 'frame', 'no_raise')}
    top = 2 if tier == 'quick' else 3
    sizes = sorted([(a, b) for a in range(top + 1) for b in range(top + 1) if a + b <= top + 1], key=lambda s: (s[0] + s[1], s))
    post = merge_post(shape)
    t0 = time.time()
    budget = 40 if tier == 'quick' else 120
    attempts = {}
    for n0, m in sizes:
        if not (want - set(found)) or time.time() - t0 > budget:
            break
        paths = E.explore(merge_entry(shape, n0, m, string_values=True), max_paths=3000, timeout_ms=1000, deadline_s=20)
        for p in paths:
            if p.kind not in ('return', 'raise'):
                continue
            for name, f in post(p):
                if name not in want or name in found:
                    continue
                if attempts.get(name, 0) >= 3 or time.time() - t0 > budget:
                    continue              # budget: at most 3 native replays per obligation, bounded wall time
                v, model, dt = ckit.discharge(p.run, f, timeout_ms=3000)
                if v != 'sat':
                    continue
                attempts[name] = attempts.get(name, 0) + 1
                payload = merge_model_inputs(shape, p, model, n0, m)
                res, raw = ckit.run_replay('c10_replay.py', ['merge'], payload)
                clause = name.rsplit('.', 1)[1]
                reproduced = None
                if res is not None and 'clauses' in res:
                    reproduced = (res['clauses'].get(clause) is False) if clause != 'no_raise' else False
                elif res is None and clause == 'no_raise':
                    reproduced = 'Traceback' in raw
                rec = {'model': 'bounded instance |metadata|=%d |updates|=%d, path %s\ninputs=%s\nnative=%s' % (
                    n0, m, p.describe(), json.dumps(payload), json.dumps(res) if res is not None else raw[-800:]),
                    'replay': {'driver': 'replay/c10_replay.py merge', 'inputs': payload, 'native_result': res,
                               'expected': 'clause %s holds' % clause}, 'reproduced': reproduced}
                if reproduced is False:
                    spurious.setdefault(name, rec)      # the real code does not reproduce: keep looking
                    continue
                found[name] = rec
    return found, {k: v for k, v in spurious.items() if k not in found}


def merge_cross_check(chk, shape, tier):
    """thorough tier (DESIGN 2.8): the engine run on concrete inputs is an interpreter -- compare its result with CPython executing the
    real function.  One model per explored path of the bounded instances; any disagreement is a checker error (exit 3)."""
    batch, predicted = [], []
    for n0, m in ((0, 1), (1, 1), (2, 1), (1, 2), (2, 2)):
        paths = [p for p in E.explore(merge_entry(shape, n0, m, string_values=True), max_paths=400, timeout_ms=1000, deadline_s=20) if p.kind == 'return']
        for p in paths[:10]:
            sol = z3.Solver()
            sol.set('timeout', 5000)
            for c_ in p.run.pc:
                sol.add(c_)
            lits = pm.all_str_lits()
            if len(lits) > 1:
                sol.add(z3.Distinct(*lits))
            if sol.check() != z3.sat:
                continue
            model = sol.model()
            payload = merge_model_inputs(shape, p, model, n0, m)
            R = p.run.container.get('metadata')
            k = conc(R.n)
            if k is None:
                continue
            # names must be assigned by the same concretisation as the inputs
            run = p.run
            terms = []
            kvf = lambda t: [acc(KV(), 'ns')(t), acc(KV(), 'key')(t), acc(KV(), 'value')(t)]
            datum = datum_fn(shape)
            for i in range(n0):
                terms += kvf(run.md0.arr[i])
            for i in range(m):
                terms += kvf(datum(run.upd0.arr[i]))
            if shape.trial:
                terms += [acc(TRIAL(), 'id')(run.c0)] + [acc(UMU(), 'trial_id')(run.upd0.arr[i]) for i in range(m)]
            name = ckit.concretize_strings(model, terms, order=M.str_lt, ordered_terms=getattr(run, 'order_terms', []))
            try:
                pred = [[name(x) for x in kvf(R.arr[z3.IntVal(i)])] for i in range(k)]
            except KeyError:
                continue
            batch.append(payload)
            predicted.append(pred)
    res, raw = ckit.run_replay('c10_replay.py', ['merge_batch'], {'batch': batch})
    nm = 'C10.%s.engine_cross_check' % shape.fname
    if res is None or len(res.get('results', [])) != len(batch):
        chk.error(nm, 'cross-check driver failed: %s' % raw[-500:])
        return
    bad = [(b, pr, r) for b, pr, r in zip(batch, predicted, res['results']) if (r.get('clauses') or {}).get('result') != pr]
    if bad:
        chk.error(nm, 'the symbolic executor and CPython disagree on %d of %d concrete runs, e.g. inputs=%s engine=%s native=%s'
                  % (len(bad), len(batch), json.dumps(bad[0][0]), bad[0][1], json.dumps(bad[0][2])[:300]))
    else:
        chk.note('%s: engine result equals CPython on %d concrete runs (one per explored path of the bounded instances).' % (shape.fname, len(batch)))
        chk.extra.setdefault('engine_cross_check', {})[shape.fname] = len(batch)


def check_merge(chk, fname, tier, pool=None):
    shape = MergeShape(fname)
    chk.function(MDU, fname)
    if len(shape.params) != 2:
        chk.error('C10.%s.shape' % fname, 'cannot bind the function: expected the two parameters (container, updates)')
        return
    for h in sorted(set(shape.closure) - {fname}):
        chk.function(MDU, h, role='inlined real code')
    install_merge_loops(shape)
    c = ckit.Contract(chk, fname, timeout_ms=10000 if tier == 'quick' else 60000, rename=merge_rename(shape))
    c.prove(merge_entry(shape), merge_post(shape), expect_paths=1)
    opened = c.open_names()
    bounded, spurious = {}, {}
    if opened or c.unsupported:
        bounded, spurious = merge_bounded(shape, opened, tier)
    # bounded stand-in on the real function (independent of what the engine supports): exhaustive small scope with ':' inside
    # namespaces and keys -- the map key used by the code must be injective in (ns, key)
    if pool is not None:
        res, raw = pool.get('merge_native')
        bname = 'C10.%s.native_small_scope' % fname
        bound = "real %s, |existing| <= 1, |updates| <= 2 over namespaces {'', ':a', 'a', ':a:b'} x keys {'k', 'a:k', 'b:k', ''}: every clause evaluated natively" % fname
        if res is None:
            chk.error(bname, 'bounded stand-in did not run: %s' % raw[-400:])
        else:
            fails = res['failures'].get('trial' if shape.trial else 'study', {})
            chk.bounded_standin(bname, bound, 'violated' if fails else 'held', {'runs': res.get('runs'), 'failing_clauses': sorted(fails)})
            for clause, w in fails.items():
                nm = 'C10.%s.%s' % (fname, clause)
                if nm not in bounded:
                    bounded[nm] = {'model': 'exhaustive native run of the real function (bounded scope)\ninputs=%s\nnative=%s' % (json.dumps(w['inputs']), json.dumps(w['native'])),
                                   'replay': {'driver': 'replay/c10_replay.py merge', 'inputs': w['inputs'], 'native_result': w['native'],
                                              'expected': 'clause %s holds' % clause}, 'reproduced': True}
                    spurious.pop(nm, None)
    # loop invariants are proof hints: a failed hint alone never refutes the property (DESIGN 2.3)
    for n in list(c.by_name):
        if '.loop' in n:
            for i in c.by_name[n]:
                if i.verdict == 'sat':
                    i.verdict, i.model = 'unknown', 'proof hint (loop invariant) not established; property itself not refuted by this query'
    c.finalize(bounded=bounded, spurious=spurious)
    if tier == 'thorough':
        merge_cross_check(chk, shape, tier)
    return c


# =========================================================================================== RAM update_metadata
from pyvc import paths as PA  # noqa: E402

MUTATORS = {'append', 'extend', 'pop', 'insert', 'remove', 'clear', 'update', 'add', 'discard', 'sort', 'setdefault', 'popitem',
            'CopyFrom', 'ClearField', 'MergeFrom', 'Pack', 'reverse', 'Clear', 'ParseFromString', 'MergeFromString'}
MERGES = ('merge_study_metadata', 'merge_trial_metadata')
PURE_CALLS = {'deepcopy', 'copy', 'defaultdict', 'items', 'keys', 'values', 'debug', 'info', 'warning', 'error', 'list', 'dict', 'set',
              'tuple', 'len', 'str', 'repr', 'sorted', 'isinstance', 'format', 'log', 'vlog', 'log_if', 'get'}


def exception_hierarchy():
    h = dict(PA.BUILTIN_HIERARCHY)
    m = ModuleInfo.get('vizier._src.service.custom_errors')
    for name, c in m.classes.items():
        if c.bases:
            h[name] = c.bases[0].split('.')[-1]
    return h


def infer_return_class(mod, fn):
    """class (ClassInfo) returned by a repo function: return annotation, else the class constructed by every `return`."""
    def cls_of(name):
        name = name.strip('\'"')
        if name in mod.classes:
            return mod.classes[name]
        return None
    if fn.returns is not None:
        c = cls_of(ast.unparse(fn.returns))
        if c is not None:
            return c
    found = set()
    for n in ast.walk(fn):
        if isinstance(n, ast.Return) and n.value is not None:
            if isinstance(n.value, ast.Call) and isinstance(n.value.func, ast.Name) and n.value.func.id in mod.classes:
                found.add(n.value.func.id)
            else:
                return None
    return mod.classes[next(iter(found))] if len(found) == 1 else None


class FnTypes:
    """Tiny annotation-driven type inference for the locals of one function (unknown = None, never guessed)."""

    def __init__(self, mod, cls, fn):
        self.mod, self.cls, self.fn = mod, cls, fn
        self.local_cls = {}      # name -> (ModuleInfo, ClassInfo)
        self.defaultdicts = set()
        assigns = {}
        for n in ast.walk(fn):
            if isinstance(n, ast.Assign) and len(n.targets) == 1 and isinstance(n.targets[0], ast.Name):
                assigns.setdefault(n.targets[0].id, []).append(n.value)
            elif isinstance(n, ast.AnnAssign) and isinstance(n.target, ast.Name) and n.value is not None:
                assigns.setdefault(n.target.id, []).append(n.value)
        self.assigns = assigns
        for _ in range(3):
            for name, vals in assigns.items():
                if len(vals) != 1 or name in self.local_cls:
                    continue
                v = vals[0]
                if isinstance(v, ast.Call):
                    if PA.last_name(v.func) == 'defaultdict':
                        self.defaultdicts.add(name)
                    r = self.resolve_call(v)
                    if r is not None:
                        m2, c2, f2 = r
                        rc = infer_return_class(m2, f2)
                        if rc is not None:
                            self.local_cls[name] = (m2, rc)

    def resolve_call(self, call):
        """-> (ModuleInfo, ClassInfo|None, FunctionDef) of a repo function/method, or None."""
        f = call.func
        try:
            src = ast.unparse(f)
        except Exception:
            return None
        if isinstance(f, ast.Attribute) and isinstance(f.value, ast.Name) and f.value.id in self.local_cls:
            m2, c2 = self.local_cls[f.value.id]
            if f.attr in c2.methods:
                return m2, c2, c2.methods[f.attr]
            return None
        r = source.resolve_alias(self.mod, src)
        if r is None:
            return None
        m2, q = r
        try:
            c2, fn2 = m2.find(q)
        except (KeyError, IndexError):
            return None
        return m2, c2, fn2

    def expr_type(self, e):
        """'str' | 'int' | ... | None (unknown)."""
        if isinstance(e, ast.Constant):
            return type(e.value).__name__
        if isinstance(e, ast.JoinedStr):
            return 'str'
        if isinstance(e, ast.Call) and isinstance(e.func, ast.Name) and e.func.id in ('str', 'int', 'float', 'repr'):
            return 'str' if e.func.id == 'repr' else e.func.id
        if isinstance(e, ast.Attribute) and isinstance(e.value, ast.Name) and e.value.id in self.local_cls:
            m2, c2 = self.local_cls[e.value.id]
            if e.attr in c2.annotations:
                return ast.unparse(c2.annotations[e.attr]).strip('\'"')
            if e.attr in c2.methods and c2.methods[e.attr].returns is not None:
                return ast.unparse(c2.methods[e.attr].returns).strip('\'"')
        return None


def callee_raises(mod, fn, hierarchy, depth=0):
    """Exception classes a small repo helper may raise on its own (explicit raise statements, int()/float() of a
    non-constant); calls of other code are not followed (printed as an assumption by the caller)."""
    out = set()
    for n in ast.walk(fn):
        if isinstance(n, ast.Raise) and n.exc is not None:
            c = PA.last_name(n.exc.func) if isinstance(n.exc, ast.Call) else PA.last_name(n.exc)
            out.add(c or 'Exception')
        elif isinstance(n, ast.Call) and isinstance(n.func, ast.Name) and n.func.id in ('int', 'float') and n.args and not isinstance(n.args[0], ast.Constant):
            out.add('ValueError')
    return out


class RamClient(PA.Client):
    """events: ('mutate', site) when store-resident data is modified; exits by exception carry the automaton state
    (mutated?, mutation sites).  All-or-nothing <=> no exit by exception in a state with mutated = True."""

    def __init__(self, mod, cls, fn):
        self.mod, self.cls, self.fn = mod, cls, fn
        self.hierarchy = exception_hierarchy()
        self.types = FnTypes(mod, cls, fn)
        self.sites = {}            # origin text -> info dict
        self.assumed = set()
        self.self_name = fn.args.args[0].arg
        # store-resident names: assigned (possibly through attributes/subscripts) from an expression rooted at self / a resident name
        res = {self.self_name}
        for _ in range(4):
            for n in ast.walk(fn):
                tgt = val = None
                if isinstance(n, ast.Assign) and len(n.targets) == 1:
                    tgt, val = n.targets[0], n.value
                elif isinstance(n, ast.AnnAssign) and n.value is not None:
                    tgt, val = n.target, n.value
                if isinstance(tgt, ast.Name) and isinstance(val, (ast.Attribute, ast.Subscript, ast.Name)) and PA.root_name(val) in res:
                    res.add(tgt.id)
        self.resident = res
        self.parents = {}
        for n in ast.walk(fn):
            for c in ast.iter_child_nodes(n):
                self.parents[id(c)] = n
        # the per-trial loop = the for loop that (lexically) contains the merge_trial_metadata call
        self.trial_loop = None
        for n in ast.walk(fn):
            if isinstance(n, ast.For) and any(isinstance(c, ast.Call) and PA.last_name(c.func) == 'merge_trial_metadata' for c in ast.walk(n)):
                self.trial_loop = n

    def init_state(self):
        return (False, frozenset())

    def step(self, state, ev, consts, frame):
        if ev.kind == 'mutate':
            return (True, state[1] | {ev.data})
        return state

    def in_trial_loop(self, node):
        n = node
        while n is not None:
            if n is self.trial_loop:
                return True
            n = self.parents.get(id(n))
        return False

    def is_resident(self, e):
        r = PA.root_name(e)
        return r in self.resident and not isinstance(e, ast.Call)

    def site(self, origin, **info):
        self.sites.setdefault(origin, info)
        return origin

    def call(self, node, frame):
        ln = PA.last_name(node.func)
        text = PA._short(node, 60)
        if ln in MERGES:
            if node.args and self.is_resident(node.args[0]):
                return PA.Emit([PA.Event('mutate', '%s(%s, ..)' % (ln, PA._short(node.args[0], 40)), node.lineno, 'MUTATE store: ' + text)])
            return PA.Emit([])
        if isinstance(node.func, ast.Attribute) and ln in MUTATORS and self.is_resident(node.func.value):
            return PA.Emit([PA.Event('mutate', text, node.lineno, 'MUTATE store: ' + text)])
        if isinstance(node.func, ast.Name) and node.func.id in ('int', 'float') and node.args and not isinstance(node.args[0], ast.Constant):
            o = self.site('call:%s(%s)' % (node.func.id, PA._short(node.args[0], 30)), node=node, kind='call', in_loop=self.in_trial_loop(node), arg_types=['str'])
            return PA.Fork([PA.Branch(), PA.Branch(exc='ValueError', origin=o)])
        r = self.types.resolve_call(node)
        if r is not None:
            m2, c2, f2 = r
            rs = callee_raises(m2, f2, self.hierarchy)
            for sub in ast.walk(f2):
                if isinstance(sub, ast.Call) and PA.last_name(sub.func) not in ('int', 'float', 'match', 'group', 'fullmatch'):
                    self.assumed.add('%s: the calls inside this helper (%s) do not raise for components of an already validated resource'
                                     % ((c2.qualname + '.' if c2 is not None else '') + f2.name, PA._short(sub, 40)))
            branches = [PA.Branch()]
            for cexc in sorted(rs):
                o = self.site('call:%s raises %s' % ((c2.qualname + '.' if c2 is not None else '') + f2.name, cexc), node=node, kind='call',
                              in_loop=self.in_trial_loop(node), arg_types=['str'], callee=(c2.qualname + '.' if c2 is not None else '') + f2.name)
                branches.append(PA.Branch(exc=cexc, origin=o))
            return PA.Fork(branches)
        if ln in PURE_CALLS or ln in MUTATORS:
            return PA.Emit([])
        if isinstance(node.func, (ast.Name, ast.Attribute)) and ln is not None and ln[:1].isupper():
            # exception / message constructors
            return PA.Emit([])
        return None

    def unknown_call(self, node, frame):
        self.assumed.add('unresolved call %s does not raise and does not modify the store' % PA._short(node, 50))

    def store(self, target, value, frame):
        if isinstance(target, (ast.Subscript, ast.Attribute)) and self.is_resident(target.value):
            return [PA.Event('mutate', PA._short(target, 50), target.lineno, 'MUTATE store: ' + PA._short(target, 50) + ' = ...')]
        return ()

    def with_item(self, expr, frame):
        return (), ()

    def subscript(self, node, frame):
        """a subscript load may raise KeyError/IndexError unless the base is a local defaultdict."""
        if isinstance(node.value, ast.Name) and node.value.id in self.types.defaultdicts:
            return None
        if not self.is_resident(node.value) and not isinstance(node.value, (ast.Attribute, ast.Subscript, ast.Name)):
            return None
        if isinstance(node.value, ast.Name) and node.value.id not in self.resident:
            return None
        kt = self.types.expr_type(node.slice)
        return self.site('subscript:%s' % PA._short(node, 60), node=node, kind='subscript', in_loop=self.in_trial_loop(node), arg_types=[kt])


class RamEngine(PA.Engine):
    def _expr(self, node, front, fr, sink):
        if isinstance(node, ast.Subscript) and isinstance(node.ctx, ast.Load) and front:
            front = self._expr(node.value, front, fr, sink)
            front = self._expr(node.slice, front, fr, sink) if not isinstance(node.slice, ast.Slice) else front
            o = self.client.subscript(node, fr)
            if o is not None:
                for p in front:
                    sink.add(PA.RAISE, 'KeyError', o, p.ext('L%d %s raises KeyError (key absent)' % (node.lineno, PA._short(node, 50))))
            return front
        return PA.Engine._expr(self, node, front, fr, sink)


def raise_arg_types(client, outcome):
    """types of the args of the exception of a raise outcome: list of type names (None = unknown), or None if unknown arity."""
    info = client.sites.get(outcome.origin)
    if info is not None:
        return info.get('arg_types')
    if outcome.origin and outcome.origin.startswith('raise '):
        cls = outcome.origin.split(' ', 1)[1]
        res = []
        for n in ast.walk(client.fn):
            if isinstance(n, ast.Raise) and isinstance(n.exc, ast.Call) and PA.last_name(n.exc.func) == cls:
                res.append([client.types.expr_type(a) for a in n.exc.args])
        if len(res) >= 1:
            # merge: a position is 'str' only if every raise statement of that class has a str there
            width = max(len(r) for r in res)
            return [t if all(len(r) > i and r[i] == t for r in res) else None for i, t in enumerate(res[0])] if all(len(r) == width for r in res) else None
    return None


def check_ram(chk, tier, pool):
    t0 = time.time()
    OB = 'C10.ram.update_metadata.'
    fq = 'NestedDictRAMDataStore.update_metadata'
    chk.function(RAM, fq)
    mod = ModuleInfo.get(RAM)
    cls, fn = mod.find(fq)
    client = RamClient(mod, cls, fn)
    eng = RamEngine(client)
    try:
        outs = eng.run(fn, fq)
    except PA.Unsupported as u:
        chk.error(OB + 'supported', 'path analysis of the real function left the supported subset: %s' % u)
        return None
    for a in sorted(client.assumed):
        chk.assume('RAM update_metadata path analysis: ' + a)
    chk.assume('RAM update_metadata path analysis: merge_*_metadata do not raise (C10.merge_*.no_raise, proved above); deepcopy/defaultdict/'
               'append/items/logging do not raise and do not modify the store')
    raises = [o for o in outs if o.kind == 'raise']
    returns = [o for o in outs if o.kind == 'return']
    dt = time.time() - t0
    if not returns or client.trial_loop is None:
        chk.error(OB + 'vacuity', 'no returning path / no per-trial loop containing merge_trial_metadata found (%d outcomes)' % len(outs))
        return None
    if not any(o.state[0] for o in returns):
        chk.error(OB + 'vacuity', 'no returning path performs a mutation: the mutation events were not recognised')
        return None
    bad = [o for o in raises if o.state[0]]
    approx = [o for o in bad if o.approx]
    bad = [o for o in bad if not o.approx]
    inside = [o for o in bad if (client.sites.get(o.origin) or {}).get('in_loop')]
    outside = [o for o in bad if o not in inside]
    describe = lambda o: {'raises': o.exc, 'at': o.origin, 'after': sorted(o.state[1]), 'trace': PA.format_trace(o, 40)}
    detail = {'outcomes': len(outs), 'raise_exits': len(raises), 'raise_exits_after_mutation': [describe(o) for o in bad][:6]}
    finding = chk.finding_for(OB + 'all_or_nothing')
    name = OB + 'all_or_nothing'
    if outside:
        o = outside[0]
        chk.obligation(name, fq, 'paths', report.VIOLATED, dt, detail=detail,
                       model='exit by %s at %s after the store was modified by %s\n%s' % (o.exc, o.origin, sorted(o.state[1]), '\n'.join(PA.format_trace(o, 60))),
                       replay={'driver': 'replay/c10_replay.py ram_partial', 'path': PA.format_trace(o, 60)}, reproduced=None)
    elif inside:
        res, raw = pool.get('ram_partial') if finding is not None else (None, '')
        if finding is not None and not (res and res.get('reproduced')):
            chk.note('NOTE: recorded finding %s is stale (its witness no longer reproduces); it suppresses nothing.' % name)
            finding = None
        if finding is not None:
            if True:
                detail['witness_replay'] = res
                chk.obligation(name, fq, 'paths', report.KNOWN, dt, detail=detail, finding=finding['what'])
                chk.obligation(name + '.residual', fq, 'paths', report.PROVED, 0.0,
                               detail='no exit by exception after a mutation at any raise site outside the per-trial loop (%d raise exits examined, %d inside the '
                                      'finding\'s class)' % (len(raises), len(inside)))
        else:
            o = inside[0]
            res, raw = ckit.run_replay('c10_replay.py', ['ram_partial'])
            chk.obligation(name, fq, 'paths', report.VIOLATED, dt, detail=detail,
                           model='exit by %s at %s after the store was modified by %s\n%s' % (o.exc, o.origin, sorted(o.state[1]), '\n'.join(PA.format_trace(o, 60))),
                           replay={'driver': 'replay/c10_replay.py ram_partial', 'native_result': res}, reproduced=bool(res and res.get('reproduced')))
    elif approx:
        chk.obligation(name, fq, 'paths', report.UNDECIDED, dt, detail={'reason': 'violating exit only on a path with an undecided except-match', 'paths': [describe(o) for o in approx][:3]})
    else:
        chk.obligation(name, fq, 'paths', report.PROVED, dt, detail=detail)
    # the study lookup precedes every mutation: the missing-study exit is a NotFoundError raised in a clean state
    nf = [o for o in raises if client.is_subclass(o.exc, 'KeyError') and not (client.sites.get(o.origin) or {}).get('in_loop')]
    ok = bool(nf) and all(not o.state[0] and o.exc == 'NotFoundError' for o in nf)
    chk.obligation(OB + 'missing_study.not_found_and_unchanged', fq, 'paths', report.PROVED if ok else (report.VIOLATED if nf else report.ERROR), 0.0,
                   detail={'exits': [describe(o) for o in nf][:4]}, model=None if ok else json.dumps([describe(o) for o in nf][:4], default=str))
    # the success exit has performed the study merge and leaves no pending exception
    chk.obligation(OB + 'ok_path_merges', fq, 'paths', report.PROVED if all(any('merge_study_metadata' in s for s in o.state[1]) for o in returns) else report.VIOLATED, 0.0,
                   detail={'returns': [sorted(o.state[1]) for o in returns][:4]},
                   model='a returning path does not call merge_study_metadata on store-resident data')
    # error class of a missing/invalid trial: must be NotFoundError (a KeyError the servicer reports); raw KeyError / ValueError escape today
    trial_exits = [o for o in raises if (client.sites.get(o.origin) or {}).get('in_loop')]
    wrong = [o for o in trial_exits if o.exc != 'NotFoundError']
    name2 = OB + 'missing_trial.error_class'
    f2 = chk.finding_for(name2)
    det2 = {'exits': [{'raises': o.exc, 'at': o.origin, 'arg_types': raise_arg_types(client, o)} for o in trial_exits][:6]}
    if not wrong:
        chk.obligation(name2, fq, 'paths', report.PROVED, 0.0, detail=det2)
    elif f2 is not None and all(o.exc in ('KeyError', 'ValueError') for o in wrong):
        chk.obligation(name2, fq, 'paths', report.KNOWN, 0.0, detail=det2, finding=f2['what'])
    else:
        chk.obligation(name2, fq, 'paths', report.VIOLATED, 0.0, detail=det2, model=json.dumps(det2, default=str),
                       replay={'driver': 'replay/c10_replay.py ram_partial'}, reproduced=None)
    return client, outs


# =========================================================================================== VizierServicer.UpdateMetadata
from contracts import servicer_model as S  # noqa: E402  (resource-name algebra, abstract DataStore contract, ghost view D)

REQ = 'vizier.UpdateMetadataRequest'
FP = 'StatusCode.FAILED_PRECONDITION'


class RaisingDatastore(S.DatastoreRef):
    """The abstract datastore, except that update_metadata raises one exception taken from the *exception interface of
    the real RAM update_metadata* (class and argument types derived by the path analysis above)."""

    def __init__(self, exc_class, arg_types):
        S.DatastoreRef.__init__(self)
        self.exc_class, self.arg_types = exc_class, arg_types


def _raising_update_metadata(it, args, kw):
    ds = args[0]
    run = it.run
    S._ds_event(it, 'update_metadata', S.parse_name(it, args[1]))
    vals = []
    for i, t in enumerate(ds.arg_types):
        if t == 'str':
            vals.append(run.fresh('exc_arg%d' % i, Str))
        elif t == 'int':
            vals.append(run.fresh('exc_arg%d' % i, z3.IntSort()))
        else:
            raise Unsupported('exception argument of unknown type')
    if ds.exc_class in ('NotFoundError', 'AlreadyExistsError'):
        raise PyRaise(ExcObj(S.err_class(ds.exc_class), {'args': tuple(vals)}))
    raise PyRaise(it.make_exc(ds.exc_class, vals))


_prev_getattr_hook = M.value_getattr_hook


def _c10_getattr_hook(it, v, a):
    if isinstance(v, RaisingDatastore) and a == 'update_metadata':
        return E.Bound(v, Builtin('ram_exception_interface.update_metadata', _raising_update_metadata))
    return _prev_getattr_hook(it, v, a)


M.value_getattr_hook = _c10_getattr_hook


def um_entry(delta_len=None, datastore=None):
    def entry(it):
        run = it.run
        S.init_view(run)
        svc = S.make_servicer(it)
        if datastore is not None:
            svc.attrs['datastore'] = datastore()
        req = S.symbolic_msg(REQ, 'req')
        if delta_len is not None:
            arr = z3.Const('delta', z3.ArraySort(z3.IntSort(), pm.msg_sort(UMU())))
            req.f['delta'] = SymList(z3.IntVal(delta_len), arr, UMU(), owner=(req, 'delta'))
        run.req = req
        run.delta0 = M.snapshot(req.get('delta'))
        run.assume(run.delta0.n >= 0)
        cls = ModuleInfo.get(SVC).classes['VizierServicer']
        return it.invoke(E.FuncVal(cls.mod, cls.methods['UpdateMetadata'], cls), [svc, req, None], {})
    return entry


def _join_nonempty(term):
    """';'.join(xs) with at least two items contains ';' (hence is not '').  Recognised on the engine's join term."""
    if z3.is_app(term) and term.decl().name().startswith('fstr!') and term.num_args() >= 2:
        for (tmpl, sorts), fn in M._FSTR.items():
            if fn.eq(term.decl()) and tmpl and isinstance(tmpl[0], str) and tmpl[0].startswith('join:;'):
                return term != pm.str_lit('')
    return z3.BoolVal(True)


def um_unchanged(D0, D1):
    return z3.And(*[D1[g] == D0[g] for g in S.GHOSTS[:4]])


def um_post(variant):
    P = 'C10.UpdateMetadata.'
    ST, T = S.S_STUDY(), S.S_TRIAL()

    def has_tid(u):
        return acc(UMU(), 'has__trial_id')(u)

    def post(p):
        run = p.run
        D0, D1 = run.D0, run.ghost
        req = run.req
        k = S.parse(E.to_z3(req.get('name')))
        obs = []
        cls = E.class_name(p.value.cls) if p.kind == 'raise' else None
        code = p.value.attrs.get('_code') if cls == 'LocalRpcError' else None
        called = any(e[0] == 'ds' and e[1] == 'update_metadata' for e in run.events)
        md = getattr(run, 'md_update', None)
        study_o = D0['D.study'][k]
        present = z3.And(S.Name.is_study(k), S.is_some(ST, study_o))
        sst = acc(ST, 'state')(S.val(ST, study_o))
        if variant != 'contract':
            tag = variant
            if p.kind == 'return' and called:
                r = p.value
                err = E.to_z3(r.get('error_details'))
                run.assume(_join_nonempty(err))
                obs.append((P + 'ram_error_reported.' + tag, err != pm.str_lit('')))
            elif called:
                obs.append((P + 'ram_error_reported.' + tag, z3.BoolVal(False)))
            return obs
        if p.kind == 'raise':
            # nothing was written, and the error is one of the documented ones
            obs.append((P + 'error_leaves_data_unchanged', um_unchanged(D0, D1)))
            if cls == 'NotFoundError':
                obs.append((P + 'error_class', z3.Not(present)))
            elif cls == 'LocalRpcError' and code == FP:
                obs.append((P + 'error_class', z3.And(present, z3.Not(z3.Or(sst == 0, sst == 1)))))
            elif cls == 'ValueError':
                obs.append((P + 'error_class', z3.Not(S.Name.is_study(k))))
            else:
                obs.append((P + 'error_class', z3.BoolVal(False)))
            return obs
        r = p.value
        err = E.to_z3(r.get('error_details')) if isinstance(r, Msg) else None
        if err is None:
            return [(P + 'ok_effect', z3.BoolVal(False))]
        obs.append((P + 'immutable_study_rejected', z3.And(present, z3.Or(sst == 0, sst == 1))))
        if md is None:
            # the datastore found a missing trial (NotFoundError, a KeyError): reported and nothing changed
            obs.append((P + 'missing_trial_reported', z3.And(z3.BoolVal(called), err != pm.str_lit(''), um_unchanged(D0, D1))))
            return obs
        n, old_s, old_t, new_t, smd, tmd = md
        ms, mt = S.md_functions()
        # ok => error_details empty and D' = D (+) delta, nothing else written afterwards
        obs.append((P + 'ok_effect', z3.And(
            err == pm.str_lit(''), n == k,
            D1['D.study'] == z3.Store(D0['D.study'], k, S.some(ST, ms(S.val(ST, D0['D.study'][k]), smd.n, smd.arr))),
            D1['D.trial'] == new_t, D1['D.sop'] == D0['D.sop'], D1['D.eop'] == D0['D.eop'])))
        # the two lists handed to the datastore are exactly the study-level metadata and the trial-level updates, in request order
        dl = run.delta0
        L = conc(dl.n)
        if L is None:
            fl = getattr(run, 'filters', [])
            # bind the two comprehension results by element type (KeyValue list = study level, UnitMetadataUpdate list = trial level)
            fl = [l for l in fl if isinstance(l, SymList) and getattr(l, 'src', None) is not None]
            f_s = [l for l in fl if getattr(l.elem, 'fq', None) == 'vizier.KeyValue' and l.arr.sort() == smd.arr.sort()]
            f_t = [l for l in fl if getattr(l.elem, 'fq', None) == 'vizier.UnitMetadataUpdate' and l.arr.sort() == tmd.arr.sort()]
            fl = (f_s[-1:] + f_t[-1:]) if (f_s and f_t) else []
            ok = z3.BoolVal(len(fl) == 2)
            if len(fl) == 2:
                j, j2, i = z3.Int('j!sp'), z3.Int('j2!sp'), z3.Int('i!sp')
                parts = []
                for lst, passed, cond, elt in ((fl[0], smd, lambda u: z3.Not(has_tid(u)), lambda u: acc(UMU(), 'metadatum')(u)),
                                               (fl[1], tmd, has_tid, lambda u: u)):
                    src = lst.src
                    parts += [passed.n == lst.n, passed.arr == lst.arr,
                              z3.ForAll([j], z3.Implies(z3.And(j >= 0, j < lst.n), z3.And(src[j] >= 0, src[j] < dl.n, cond(dl.arr[src[j]]),
                                                                                          lst.arr[j] == elt(dl.arr[src[j]])))),
                              z3.ForAll([j, j2], z3.Implies(z3.And(j >= 0, j < j2, j2 < lst.n), src[j] < src[j2])),
                              z3.ForAll([i], z3.Implies(z3.And(i >= 0, i < dl.n, cond(dl.arr[i])), z3.Exists([j], z3.And(j >= 0, j < lst.n, src[j] == i))))]
                ok = z3.And(*parts)
            obs.append((P + 'split', ok))
        else:
            parts = []
            for passed, cond, elt in ((smd, lambda u: z3.Not(has_tid(u)), lambda u: acc(UMU(), 'metadatum')(u)), (tmd, has_tid, lambda u: u)):
                one = lambda c: z3.If(c, z3.IntVal(1), z3.IntVal(0))
                pos = [z3.Sum([one(cond(dl.arr[i2])) for i2 in range(i)]) if i else z3.IntVal(0) for i in range(L)]
                n_s = z3.Sum([one(cond(dl.arr[i])) for i in range(L)]) if L else z3.IntVal(0)
                parts.append(passed.n == n_s)
                for q in range(L):
                    for i in range(L):
                        parts.append(z3.Implies(z3.And(cond(dl.arr[i]), pos[i] == q), passed.arr[q] == elt(dl.arr[i])))
            obs.append((P + 'split', z3.And(*parts)))
        return obs
    return post


def um_bounded(names, tier):
    """bounded model query for UpdateMetadata (|delta| <= 2), replayed through the real servicer on the RAM datastore."""
    found, spurious = {}, {}
    want = set(names) & {'C10.UpdateMetadata.split', 'C10.UpdateMetadata.ok_effect', 'C10.UpdateMetadata.missing_trial_reported'}
    post = um_post('contract')
    t0, attempts = time.time(), {}
    for L in (1, 2):
        if not (want - set(found)) or time.time() - t0 > 60:
            break
        for p in E.explore(um_entry(L), max_paths=400, timeout_ms=1000, deadline_s=20):
            if p.kind not in ('return', 'raise'):
                continue
            for name, f in post(p):
                if name not in want or name in found or attempts.get(name, 0) >= 3 or time.time() - t0 > 60:
                    continue
                v, model, dt = ckit.discharge(p.run, f, timeout_ms=3000)
                if v == 'unknown':
                    # the quantified axioms here are definitions (datastore contract); decide the ground part and let the replay arbitrate
                    v, model, dt = ckit.discharge(p.run, f, nax=0, timeout_ms=5000)
                    if v == 'sat':
                        v = 'sat-ground'
                if v not in ('sat', 'sat-ground'):
                    continue
                attempts[name] = attempts.get(name, 0) + 1
                run = p.run
                arr = run.delta0.arr
                kvf = lambda t: [acc(KV(), 'ns')(t), acc(KV(), 'key')(t), acc(KV(), 'value')(t)]
                terms = []
                for i in range(L):
                    terms += kvf(acc(UMU(), 'metadatum')(arr[i]))
                nm = ckit.concretize_strings(model, terms)
                missing = name.endswith('missing_trial_reported')
                delta = []
                for i in range(L):
                    has = z3.is_true(model.eval(acc(UMU(), 'has__trial_id')(arr[i]), model_completion=True))
                    delta.append([('99' if missing else '1') if has else None] + [nm(x) for x in kvf(acc(UMU(), 'metadatum')(arr[i]))])
                payload = {'trials': 2, 'delta': delta}
                res, raw = ckit.run_replay('c10_replay.py', ['update_metadata'], payload)
                reproduced = None
                if res is not None:
                    if missing:
                        reproduced = res.get('missing_trial') and not res.get('error_reported_and_unchanged')
                    else:
                        reproduced = not (res.get('exception') is None and res.get('error_details') == '' and res.get('ok_effect')) and not res.get('missing_trial')
                rec = {'model': 'bounded instance |delta|=%d, path %s (%s)\ninputs=%s\nnative=%s' % (L, p.describe(), v, json.dumps(payload), json.dumps(res) if res else raw[-600:]),
                       'replay': {'driver': 'replay/c10_replay.py update_metadata', 'inputs': payload, 'native_result': res}, 'reproduced': reproduced}
                if reproduced is True or (reproduced is None and v == 'sat'):
                    found[name] = rec
                else:
                    spurious.setdefault(name, rec)
    return found, {k: v for k, v in spurious.items() if k not in found}


def check_servicer(chk, tier, ram, pool):
    fq = 'VizierServicer.UpdateMetadata'
    chk.function(SVC, fq)
    for q in ('VizierServicer._study_is_immutable',):
        chk.function(SVC, q, role='inlined real code')
    chk.trust('abstract DataStore contract (DESIGN Appendix A) for load_study/update_metadata: update_metadata is all-or-nothing and raises '
              'NotFoundError for a missing study/trial -- discharged for SQL by the C05 transaction bracket (assumed here), FALSE for RAM today (finding 7)')
    chk.assume('resource names are canonical (DESIGN 4.3)')
    chk.assume('SQLDataStore.update_metadata all-or-nothing = C05.update_metadata.bracket (one transaction, rollback on the missing-trial branch, SQLite '
               'atomic commit trusted); the value written is merge_*_metadata of the stored proto (same functions as proved above)')
    c = ckit.Contract(chk, fq, timeout_ms=10000 if tier == 'quick' else 60000)
    c.prove(um_entry(), um_post('contract'), expect_paths=3)
    # exception interface of the real RAM update_metadata
    known = {}
    if ram is not None:
        client, outs = ram
        seen = set()
        for o in outs:
            if o.kind != 'raise':
                continue
            info = client.sites.get(o.origin) or {}
            at = raise_arg_types(client, o)
            where = 'trial' if info.get('in_loop') else 'study'
            key = (o.exc, tuple(at) if at is not None else None, where)
            if key in seen:
                continue
            seen.add(key)
            if where == 'study' and o.exc != 'NotFoundError':
                chk.assume('UpdateMetadata: %s at %s cannot occur after _study_is_immutable accepted the same study name' % (o.exc, o.origin))
                continue
            tag = '%s(%s)@%s' % (o.exc, ','.join(str(t) for t in at) if at is not None else '?', where)
            if at is None or any(t not in ('str', 'int') for t in at):
                chk.assume('UpdateMetadata: argument types of %s raised at %s could not be derived; not examined' % (o.exc, o.origin))
                continue
            c.prove(um_entry(datastore=lambda o=o, at=at: RaisingDatastore(o.exc, at)), um_post(tag), expect_paths=1)
            name = 'C10.UpdateMetadata.ram_error_reported.' + tag
            bad = [i for i in c.by_name.get(name, []) if i.verdict != 'unsat']
            if bad:
                f = chk.finding_for(name)
                # the finding's class: UpdateMetadata exits by TypeError (join of a non-str arg) resp. by the escaping ValueError
                want_exit = 'TypeError' if o.exc == 'KeyError' else o.exc
                exact = all(i.verdict == 'sat' and i.path.kind == 'raise' and E.class_name(i.path.value.cls) == want_exit for i in bad)
                if f is not None and exact:
                    res, raw = pool.get(f['witness']['args'][0])
                    if res is None or not res.get('reproduced'):
                        chk.note('NOTE: recorded finding %s is stale (its witness no longer reproduces); it suppresses nothing.' % name)
                    else:
                        known[name] = f['what']
    opened = [n for n in c.open_names() if n not in known]
    bounded, spurious = ({}, {})
    if opened:
        bounded, spurious = um_bounded(opened, tier)
        for n in opened:
            if n.startswith('C10.UpdateMetadata.ram_error_reported.') and n not in bounded and any(i.verdict == 'sat' for i in c.by_name[n]):
                drv = 'servicer_join' if 'KeyError' in n else 'trial_id_zero'
                res, raw = pool.get(drv)
                bounded[n] = {'model': 'the handler `except KeyError as e: ";".join(e.args)` does not turn this exception of the real RAM update_metadata into a '
                                       'reported error\nnative=%s' % json.dumps(res), 'replay': {'driver': 'replay/c10_replay.py ' + drv, 'native_result': res},
                              'reproduced': bool(res and res.get('reproduced'))}
    c.finalize(bounded=bounded, known=known, spurious=spurious)
    return c


# =========================================================================================== Metadata core (real AST)
from pyvc import mdmodel as MD  # noqa: E402


def _md_class():
    return ModuleInfo.get(COMMON).classes['Metadata']


def _mcall(it, o, name, *args):
    c, m = E.find_method(o.cls, name)
    if m is None:
        raise Unsupported('Metadata.%s not found in the current source' % name)
    return it.invoke(E.FuncVal(c.mod, m, c), [o] + list(args), {})


def _ns_term(o):
    return MD.seq_of(o.attrs['_as_tuple'])


def triples_match(items, expected):
    """items: [(Namespace obj, key term, value term)] produced by the code; expected: [(cond, ns seq term, key, value)].
    The two describe the same finite map (ns, key) -> value."""
    same = lambda it_, e: z3.And(e[0], _ns_term(it_[0]) == e[1], E.to_z3(it_[1]) == e[2], E.to_z3(it_[2]) == e[3])
    a = [z3.Or(*[same(i, e) for e in expected]) if expected else z3.BoolVal(False) for i in items]
    b = [z3.Implies(e[0], z3.Or(*[same(i, e) for i in items]) if items else z3.BoolVal(False)) for e in expected]
    c = [z3.Not(z3.And(_ns_term(items[i][0]) == _ns_term(items[j][0]), E.to_z3(items[i][1]) == E.to_z3(items[j][1])))
         for i in range(len(items)) for j in range(i + 1, len(items))]
    return z3.And(*(a + b + c)) if (a or b or c) else z3.BoolVal(True)


def md_scenarios():
    """(function name, entry, post) -- every scenario starts from Metadata() and quantifies over ALL namespaces (any depth),
    keys and values; the precondition 'the object holds exactly the entries written by the scenario' is part of the contract."""
    sv = lambda n: z3.Const(n, Str)
    out = []

    # -- abs_ns / __setitem__ / get: distinct namespaces <-> distinct stores
    def e1(it):
        run = it.run
        md = M.construct(it, _md_class(), [], {})
        run.N1, run.N2 = MD.fresh_tuple(run, 'N1'), MD.fresh_tuple(run, 'N2')
        M.setitem(it, _mcall(it, md, 'abs_ns', run.N1), sv('k1'), sv('v1'))
        return _mcall(it, _mcall(it, md, 'abs_ns', run.N2), 'get', sv('k2'))

    def p1(p):
        run = p.run
        same = z3.And(run.N1.term == run.N2.term, sv('k1') == sv('k2'))
        if p.kind != 'return':
            return [('C10.Metadata.setitem_getitem.same_ns_same_key_iff', z3.BoolVal(False))]
        if p.value is None:
            return [('C10.Metadata.setitem_getitem.same_ns_same_key_iff', z3.Not(same))]
        return [('C10.Metadata.setitem_getitem.same_ns_same_key_iff', z3.And(same, E.to_z3(p.value) == sv('v1')))]
    out.append(('Metadata.abs_ns', e1, p1))

    # -- ns(c): one step down, tree shared, self untouched
    def e2(it):
        run = it.run
        md = M.construct(it, _md_class(), [], {})
        run.N = MD.fresh_tuple(run, 'N')
        a = _mcall(it, md, 'abs_ns', run.N)
        b = _mcall(it, a, 'ns', sv('c'))
        run.objs = (md, a, b)
        M.setitem(it, b, sv('k'), sv('v'))
        return _mcall(it, a, 'get', sv('k'))

    def p2(p):
        run = p.run
        if p.kind != 'return':
            return [('C10.Metadata.ns.appends_component', z3.BoolVal(False))]
        md, a, b = run.objs
        stores = b.attrs['_stores']
        reg = [v for k, v in stores.items_ if k is b.attrs['_namespace'] or z3.is_true(z3.simplify(MD.tuple_eq(k.attrs['_as_tuple'], b.attrs['_namespace'].attrs['_as_tuple'])))]
        return [('C10.Metadata.ns.appends_component', _ns_term(b.attrs['_namespace']) == z3.Concat(run.N.term, z3.Unit(sv('c')))),
                ('C10.Metadata.ns.shares_tree', z3.BoolVal(stores is md.attrs['_stores'] and stores is a.attrs['_stores'] and any(r is b.attrs['_store'] for r in reg))),
                ('C10.Metadata.ns.parent_unchanged', z3.And(_ns_term(a.attrs['_namespace']) == run.N.term,
                                                           z3.BoolVal(p.value is None)))]     # the write one level down is invisible in the parent namespace
    out.append(('Metadata.ns', e2, p2))

    # -- all_items / namespaces after two writes: exactly the last-written values
    def e3(it):
        run = it.run
        md = M.construct(it, _md_class(), [], {})
        run.N1, run.N2 = MD.fresh_tuple(run, 'N1'), MD.fresh_tuple(run, 'N2')
        M.setitem(it, _mcall(it, md, 'abs_ns', run.N1), sv('k1'), sv('v1'))
        M.setitem(it, _mcall(it, md, 'abs_ns', run.N2), sv('k2'), sv('v2'))
        return _mcall(it, md, 'all_items')

    def p3(p):
        run = p.run
        if p.kind != 'return':
            return [('C10.Metadata.all_items.exact_last_writer_wins', z3.BoolVal(False))]
        items = [tuple(x) for x in p.value.items]
        same = z3.And(run.N1.term == run.N2.term, sv('k1') == sv('k2'))
        return [('C10.Metadata.all_items.exact_last_writer_wins', triples_match(items, [
            (z3.Not(same), run.N1.term, sv('k1'), sv('v1')), (z3.BoolVal(True), run.N2.term, sv('k2'), sv('v2'))]))]
    out.append(('Metadata.all_items', e3, p3))

    # -- attach: subtree below other's current namespace lands below self's current namespace; every other entry untouched
    def e4(it):
        run = it.run
        tgt = M.construct(it, _md_class(), [], {})
        other = M.construct(it, _md_class(), [], {})
        run.U, run.Q, run.R, run.P = [MD.fresh_tuple(run, n) for n in 'UQRP']
        M.setitem(it, _mcall(it, tgt, 'abs_ns', run.U), sv('ku'), sv('vu'))
        M.setitem(it, _mcall(it, other, 'abs_ns', run.Q), sv('k'), sv('v'))
        _mcall(it, _mcall(it, tgt, 'abs_ns', run.R), 'attach', _mcall(it, other, 'abs_ns', run.P))
        run.other = other
        return (_mcall(it, tgt, 'all_items'), _mcall(it, other, 'all_items'))

    def p4(p):
        run = p.run
        if p.kind != 'return':
            return [('C10.Metadata.attach.effect_and_frame', z3.BoolVal(False))]
        items = [tuple(x) for x in p.value[0].items]
        oitems = [tuple(x) for x in p.value[1].items]
        U, Q, R, P = run.U.term, run.Q.term, run.R.term, run.P.term
        below = z3.PrefixOf(P, Q)
        T = z3.Concat(R, z3.Extract(Q, z3.Length(P), z3.Length(Q) - z3.Length(P)))
        hit = z3.And(below, U == T, sv('ku') == sv('k'))
        return [('C10.Metadata.attach.effect_and_frame', triples_match(items, [
            (z3.Not(hit), U, sv('ku'), sv('vu')), (below, T, sv('k'), sv('v'))])),
            ('C10.Metadata.attach.source_unchanged', triples_match(oitems, [(z3.BoolVal(True), Q, sv('k'), sv('v'))]))]
    out.append(('Metadata.attach', e4, p4))
    return out


def check_metadata_core(chk, tier, pool):
    for t in MD.TRUST:
        chk.trust('pyvc/mdmodel.py: ' + t)
    chk.assume('Metadata contracts: each scenario starts from Metadata() and holds exactly the entries it writes (precondition of the contract); '
               'namespaces (any depth), keys and values are universally quantified')
    for q in ('Metadata.__init__', 'Metadata.abs_ns', 'Metadata.ns', 'Metadata._copy_core', 'Metadata.__setitem__', 'Metadata.__getitem__', 'Metadata.get',
              'Metadata.get_or_error', 'Metadata.all_items', 'Metadata.namespaces', 'Metadata.subnamespaces', 'Metadata.attach', 'Metadata.current_ns',
              'Namespace.__init__', 'Namespace.__add__', 'Namespace.__getitem__', 'Namespace.__len__', 'Namespace.startswith'):
        chk.function(COMMON, q)
    c = ckit.Contract(chk, 'Metadata', timeout_ms=10000 if tier == 'quick' else 60000)
    for fname, entry, post in md_scenarios():
        c.prove(entry, post, expect_paths=2, deadline_s=40)
    # a definite `sat` here has symbolic namespaces only; the native cross-check of the same contracts runs on sampled namespaces
    res, raw = pool.get('metadata_core')
    if res is None:
        chk.error('C10.Metadata.cross_check', 'native cross-check did not run: %s' % raw[-400:])
    elif not res.get('ok'):
        chk.error('C10.Metadata.cross_check', 'the engine\'s contracts disagree with CPython on sampled namespaces: %s' % json.dumps(res.get('failures'))[:800])
    else:
        chk.note('Metadata contracts cross-checked natively on %d sampled namespace pairs.' % res.get('checked', 0))
    c.finalize()
    return c


# =========================================================================================== Metadata <-> KeyValue list
ns_encode = z3.Function('ns_encode', MD.TupStr, Str)
ns_decode = z3.Function('ns_decode', Str, MD.TupStr)


def check_kv_conversion(chk, tier):
    """make_key_value_list / from_key_value_list on the real AST, with Namespace.encode / decode as uninterpreted functions
    (their inverse law is the bounded stand-in below, false for components ending in a backslash -- finding 11)."""
    chk.function(MDU, 'make_key_value_list')
    chk.function(MDU, 'from_key_value_list')
    chk.function(MDU, '_assign_value', role='inlined real code')
    chk.assume('make_key_value_list / from_key_value_list: Namespace.encode / Namespace.decode are uninterpreted functions here; only their use is checked '
               '(string values; proto values follow the same assignment branch structure)')
    sv = lambda n: z3.Const(n, Str)
    saved = {k: E.MODELS.get(k) for k in (COMMON + ':Namespace.encode', COMMON + ':Namespace.decode')}
    E.MODELS[COMMON + ':Namespace.encode'] = lambda it, args, kw: ns_encode(MD.seq_of(args[0].attrs['_as_tuple']))
    E.MODELS[COMMON + ':Namespace.decode'] = lambda it, args, kw: MD.make_namespace(it, MD.SymTuple(ns_decode(E.to_z3(args[-1]))))
    P = 'C10.'

    def e_make(it):
        run = it.run
        md = M.construct(it, _md_class(), [], {})
        run.N1, run.N2 = MD.fresh_tuple(run, 'N1'), MD.fresh_tuple(run, 'N2')
        M.setitem(it, _mcall(it, md, 'abs_ns', run.N1), sv('k1'), sv('v1'))
        M.setitem(it, _mcall(it, md, 'abs_ns', run.N2), sv('k2'), sv('v2'))
        m = ModuleInfo.get(MDU)
        return it.invoke(E.FuncVal(m, m.funcs['make_key_value_list']), [md], {})

    def p_make(p):
        run = p.run
        if p.kind != 'return' or not isinstance(p.value, list):
            return [(P + 'make_key_value_list.one_item_per_entry', z3.BoolVal(False))]
        vnum = KV().fields['value'].number
        same = z3.And(run.N1.term == run.N2.term, sv('k1') == sv('k2'))
        got = [(E.to_z3(x.get('ns')), E.to_z3(x.get('key')), E.to_z3(x.get('value')), E.to_z3(x.get_case('a_value'))) for x in p.value]
        exp = [(z3.Not(same), ns_encode(run.N1.term), sv('k1'), sv('v1')), (z3.BoolVal(True), ns_encode(run.N2.term), sv('k2'), sv('v2'))]
        eq = lambda g, e: z3.And(e[0], g[0] == e[1], g[1] == e[2], g[2] == e[3], g[3] == vnum)
        a = [z3.Or(*[eq(g, e) for e in exp]) for g in got]
        b = [z3.Implies(e[0], z3.Or(*[eq(g, e) for g in got]) if got else z3.BoolVal(False)) for e in exp]
        n_ok = z3.If(same, z3.IntVal(1), z3.IntVal(2)) == len(got)
        return [(P + 'make_key_value_list.one_item_per_entry', z3.And(n_ok, *(a + b)))]

    def e_from(it):
        run = it.run
        kvs = []
        vnum = KV().fields['value'].number
        for i in (1, 2):
            m = Msg.from_term(KV(), z3.Const('kv%d' % i, pm.msg_sort(KV())))
            run.assume(acc(KV(), 'case__a_value')(m.pack()) == vnum)
            kvs.append(m)
        run.kvs = [k.pack() for k in kvs]
        mod = ModuleInfo.get(MDU)
        return it.invoke(E.FuncVal(mod, mod.funcs['from_key_value_list']), [kvs], {})

    def p_from(p):
        run = p.run
        if p.kind != 'return' or not MD.is_metadata(p.value):
            return [(P + 'from_key_value_list.last_writer_wins', z3.BoolVal(False))]
        a, b = run.kvs
        f = lambda t, n: acc(KV(), n)(t)
        same = z3.And(ns_decode(f(a, 'ns')) == ns_decode(f(b, 'ns')), f(a, 'key') == f(b, 'key'))
        items = _entries(p.value)
        return [(P + 'from_key_value_list.last_writer_wins', _same_map(items, [
            (z3.Not(same), ns_decode(f(a, 'ns')), f(a, 'key'), f(a, 'value')), (z3.BoolVal(True), ns_decode(f(b, 'ns')), f(b, 'key'), f(b, 'value'))]))]

    c = ckit.Contract(chk, 'metadata_util', timeout_ms=10000 if tier == 'quick' else 60000)
    try:
        c.prove(e_make, p_make, expect_paths=2, deadline_s=30)
        c.prove(e_from, p_from, expect_paths=2, deadline_s=30)
    finally:
        for k, v in saved.items():
            if v is None:
                E.MODELS.pop(k, None)
            else:
                E.MODELS[k] = v
    c.finalize()


# =========================================================================================== InRamPolicySupporter._UpdateMetadata
LPS = 'vizier._src.pythia.local_policy_supporters'


def check_inram_update(chk, tier, pool):
    fq = 'InRamPolicySupporter._UpdateMetadata'
    chk.function(LPS, fq)
    sv = lambda n: z3.Const(n, Str)
    mdc = _md_class()
    P = 'C10.InRamPolicySupporter._UpdateMetadata.'

    def one(it, ns, k, v):
        md = M.construct(it, mdc, [], {})
        M.setitem(it, _mcall(it, md, 'abs_ns', ns), k, v)
        return md

    def entry(it):
        run = it.run
        run.T = {n: MD.fresh_tuple(run, n) for n in ('U', 'N', 'U2', 'N3')}
        run.mdS = one(it, run.T['U'], sv('ku'), sv('vu'))
        run.mdT = one(it, run.T['U2'], sv('ku2'), sv('vu2'))
        mdD = one(it, run.T['N'], sv('k'), sv('v'))
        mdDT = one(it, run.T['N3'], sv('k3'), sv('v3'))
        tid0, tid = z3.Int('tid0'), z3.Int('tid')
        run.assume(tid0 >= 1)
        run.tid0, run.tid = tid0, tid
        trials = M.PyDict()
        trials.set(it, tid0, Obj('opaque:Trial', {'metadata': run.mdT}))
        on_trials = M.PyDict()
        on_trials.set(it, tid, mdDT)
        cls = ModuleInfo.get(LPS).classes['InRamPolicySupporter']
        sup = Obj(cls, {'study_config': Obj('opaque:ProblemStatement', {'metadata': run.mdS}), '_trials': trials})
        # the delta's Metadata objects are VIEWS positioned at arbitrary current namespaces of their trees
        run.T['C'], run.T['C3'] = MD.fresh_tuple(run, 'C'), MD.fresh_tuple(run, 'C3')
        mdD = _mcall(it, mdD, 'abs_ns', run.T['C'])
        on_trials.items_[0][1] = _mcall(it, mdDT, 'abs_ns', run.T['C3'])
        delta = Obj('opaque:MetadataDelta', {'on_study': mdD, 'on_trials': on_trials})
        return it.invoke(E.FuncVal(cls.mod, cls.methods['_UpdateMetadata'], cls), [sup, delta], {})

    def post(p):
        run = p.run
        T = {k: v.term for k, v in run.T.items()}
        st = [(ns, k, v) for ns, k, v in _entries(run.mdS)]
        tr = [(ns, k, v) for ns, k, v in _entries(run.mdT)]
        hitS = z3.And(T['U'] == T['N'], sv('ku') == sv('k'))
        hitT = z3.And(T['U2'] == T['N3'], sv('ku2') == sv('k3'))
        study_updated = _same_map(st, [(z3.Not(hitS), T['U'], sv('ku'), sv('vu')), (z3.BoolVal(True), T['N'], sv('k'), sv('v'))])
        study_same = _same_map(st, [(z3.BoolVal(True), T['U'], sv('ku'), sv('vu'))])
        trial_updated = _same_map(tr, [(z3.Not(hitT), T['U2'], sv('ku2'), sv('vu2')), (z3.BoolVal(True), T['N3'], sv('k3'), sv('v3'))])
        trial_same = _same_map(tr, [(z3.BoolVal(True), T['U2'], sv('ku2'), sv('vu2'))])
        if p.kind == 'return':
            return [(P + 'pointwise', z3.And(run.tid == run.tid0, study_updated, trial_updated))]
        return [(P + 'all_or_nothing', z3.And(study_same, trial_same)),
                (P + 'error_only_for_bad_trial', z3.Or(run.tid != run.tid0, run.tid <= 0))]

    c = ckit.Contract(chk, fq, timeout_ms=10000 if tier == 'quick' else 60000)
    c.prove(entry, post, expect_paths=2, deadline_s=40)
    known = {}
    name = P + 'all_or_nothing'
    bad = [i for i in c.by_name.get(name, []) if i.verdict != 'unsat']
    bounded = {}
    if bad:
        f = chk.finding_for(name)
        res, raw = pool.get('inram_update_metadata')
        # the finding's class: the exception is the KeyError of `self._trials[tid]` for a missing trial, after the study-level update
        exact = all(i.verdict == 'sat' and i.path.kind == 'raise' and E.class_name(i.path.value.cls) in ('KeyError', 'ValueError') for i in bad)
        if f is not None and exact and res is not None and res.get('reproduced') and res.get('bad_id_reproduced'):
            known[name] = f['what']
        elif res is not None:
            bounded[name] = {'model': 'exception after the study-level metadata was updated\nnative=%s' % json.dumps(res),
                             'replay': {'driver': 'replay/c10_replay.py inram_update_metadata', 'native_result': res}, 'reproduced': bool(res.get('reproduced'))}
    pw = P + 'pointwise'
    if any(i.verdict != 'unsat' for i in c.by_name.get(pw, [])):
        res, raw = pool.get('inram_update_metadata')
        if res is not None and res.get('view_reproduced'):
            bounded[pw] = {'model': 'a MetadataDelta whose Metadata objects are views positioned at a non-root namespace is not applied at the absolute namespaces '
                                    'of its entries\nnative=%s' % json.dumps(res.get('view_failures'))[:1500],
                           'replay': {'driver': 'replay/c10_replay.py inram_update_metadata', 'native_result': res.get('view_failures')}, 'reproduced': True}
    c.finalize(known=known, bounded=bounded)


def _entries(md):
    out = []
    for nsobj, store in md.attrs['_stores'].items_:
        for k, v in store.items_:
            out.append((MD.seq_of(nsobj.attrs['_as_tuple']), E.to_z3(k), E.to_z3(v)))
    return out


def _same_map(items, expected):
    same = lambda i, e: z3.And(e[0], i[0] == e[1], i[1] == e[2], i[2] == e[3])
    a = [z3.Or(*[same(i, e) for e in expected]) for i in items]
    b = [z3.Implies(e[0], z3.Or(*[same(i, e) for i in items]) if items else z3.BoolVal(False)) for e in expected]
    c = [z3.Not(z3.And(items[i][0] == items[j][0], items[i][1] == items[j][1])) for i in range(len(items)) for j in range(i + 1, len(items))]
    return z3.And(*(a + b + c)) if (a or b or c) else z3.BoolVal(True)


# =========================================================================================== policy namespace write frame
def _chain_of(node):
    """attribute/call chain as a list from the root name outward: a.b(c).d -> ('a', [('attr','b',None), ('call',None,node), ('attr','d',None)])"""
    steps = []
    while True:
        if isinstance(node, ast.Attribute):
            steps.append(('attr', node.attr, node))
            node = node.value
        elif isinstance(node, ast.Call):
            steps.append(('call', None, node))
            node = node.func
        elif isinstance(node, ast.Subscript):
            steps.append(('sub', None, node))
            node = node.value
        elif isinstance(node, ast.Name):
            return node.id, list(reversed(steps))
        else:
            return None, list(reversed(steps))


MD_WRITERS = {'attach', 'update', '__setitem__', 'setdefault', 'pop', 'popitem', 'clear', 'assign', 'on_trial'}


def ns_frame_of(fn, root_pred, allowed_ns_args, self_name):
    """Every use of a metadata object `x` (names selected by root_pred) must be `x[.on_study].ns(<allowed>)...`, a plain
    read (passed as an argument / returned), or a namespace-preserving read.  Returns (violations, undecided, writes)."""
    roots = set()
    for n in ast.walk(fn):
        if isinstance(n, ast.Assign) and len(n.targets) == 1 and isinstance(n.targets[0], ast.Name) and root_pred(n.value):
            roots.add(n.targets[0].id)
    parents = {}
    for n in ast.walk(fn):
        for ch in ast.iter_child_nodes(n):
            parents[id(ch)] = n
    viol, und, writes = [], [], []
    for n in ast.walk(fn):
        if not (isinstance(n, ast.Name) and n.id in roots and isinstance(n.ctx, ast.Load)):
            continue
        # climb to the maximal chain containing this name
        top = n
        while id(top) in parents and isinstance(parents[id(top)], (ast.Attribute, ast.Call, ast.Subscript)) and \
                (getattr(parents[id(top)], 'value', None) is top or getattr(parents[id(top)], 'func', None) is top):
            top = parents[id(top)]
        root, steps = _chain_of(top)
        text = PA._short(top, 80)
        if not steps:
            continue                                   # plain read: passed along / returned
        i = 0
        if steps[i][0] == 'attr' and steps[i][1] == 'on_study':
            i += 1
            if i == len(steps):
                continue                               # read of the whole study-level metadata
        if i + 1 < len(steps) and steps[i] == ('attr', 'ns', steps[i][2]) and steps[i + 1][0] == 'call':
            call = steps[i + 1][2]
            arg = ast.unparse(call.args[0]) if call.args else None
            if arg in allowed_ns_args(self_name):
                writes.append((text, arg))
                continue
            viol.append('%s: writes under namespace %s, not under one of %s' % (text, arg, sorted(allowed_ns_args(self_name))))
            continue
        head = steps[i][1] if steps[i][0] == 'attr' else None
        is_store = isinstance(parents.get(id(top)), (ast.Assign, ast.AugAssign)) and isinstance(getattr(top, 'ctx', None), ast.Store)
        if head in MD_WRITERS or steps[i][0] == 'sub' and isinstance(steps[i][2].ctx, ast.Store) or head in ('on_trials',):
            viol.append('%s: metadata written outside Namespace([ns_root, ...])' % text)
        elif head in ('abs_ns',):
            und.append('%s: absolute namespace jump (not decided)' % text)
        elif head in ('get', 'get_or_error', 'namespaces', 'subnamespaces', 'all_items', 'items', 'keys', 'values', 'current_ns', '__contains__'):
            continue
        else:
            und.append('%s: unrecognised use of a metadata object' % text)
    return viol, und, writes


def check_policy_frame(chk, tier):
    mod = ModuleInfo.get(POLICY)
    cls = mod.classes['_SerializableDesignerPolicyBase']
    t0 = time.time()
    # ---- suggest: the MetadataDelta handed back to the service
    fq = '_SerializableDesignerPolicyBase.suggest'
    chk.function(POLICY, fq)
    fn = cls.methods['suggest']
    sname = fn.args.args[0].arg
    is_delta = lambda v: isinstance(v, ast.Call) and PA.last_name(v.func) == 'MetadataDelta'
    viol, und, writes = ns_frame_of(fn, is_delta, lambda s: {s + '._ns_root'}, sname)
    name = 'C10.policy.suggest.ns_frame'
    det = {'writes': writes, 'undecided': und}
    if viol:
        res, raw = ckit.run_replay('c10_replay.py', ['policy_ns'])
        chk.obligation(name, fq, 'frame', report.VIOLATED, time.time() - t0, detail=det, model='\n'.join(viol),
                       replay={'driver': 'replay/c10_replay.py policy_ns', 'native_result': res}, reproduced=bool(res and res.get('reproduced')))
    elif und or not writes:
        chk.obligation(name, fq, 'frame', report.UNDECIDED, time.time() - t0, detail={'reason': und or 'no write of the returned MetadataDelta found', 'writes': writes})
    else:
        chk.obligation(name, fq, 'frame', report.PROVED, time.time() - t0, detail=det)
    # ns_root is only ever assigned from the constructor argument (a policy cannot retarget its namespace later)
    assigns = [(m, n) for m, f in cls.methods.items() for n in ast.walk(f)
               if isinstance(n, ast.Attribute) and isinstance(n.ctx, ast.Store) and n.attr == '_ns_root']
    ok = all(m == '__init__' for m, n in assigns) and len(assigns) == 1
    chk.obligation('C10.policy.ns_root_fixed', '_SerializableDesignerPolicyBase', 'frame', report.PROVED if ok else report.UNDECIDED, 0.0,
                   detail={'assignments': [m for m, n in assigns]})
    # ---- dump: designer state and cache state go to two different sub-namespaces, nothing at the policy's own level or above
    for owner in ('_SerializableDesignerPolicyBase',):
        fq2 = owner + '.dump'
        chk.function(POLICY, fq2)
        fn2 = mod.classes[owner].methods['dump']
        s2 = fn2.args.args[0].arg
        is_md = lambda v: isinstance(v, ast.Call) and PA.last_name(v.func) == 'Metadata'
        viol2, und2, writes2 = ns_frame_of(fn2, is_md, lambda s: {s + '._ns_designer', s + '._ns_cache'}, s2)
        name2 = 'C10.policy.dump.ns_frame'
        if viol2:
            chk.obligation(name2, fq2, 'frame', report.VIOLATED, 0.0, detail={'writes': writes2}, model='\n'.join(viol2), replay=None, reproduced=None)
        elif und2 or not writes2:
            chk.obligation(name2, fq2, 'frame', report.UNDECIDED, 0.0, detail={'reason': und2 or 'no write found', 'writes': writes2})
        else:
            chk.obligation(name2, fq2, 'frame', report.PROVED, 0.0, detail={'writes': writes2})
        consts = {k: cls.assigns.get(k) for k in ('_ns_designer', '_ns_cache')}
        vals = {k: (v.value if isinstance(v, ast.Constant) else None) for k, v in consts.items()}
        okc = all(isinstance(v, str) and v and ':' not in v and not v.endswith('\\') for v in vals.values()) and vals['_ns_designer'] != vals['_ns_cache']
        chk.obligation('C10.policy.dump.distinct_sub_namespaces', fq2, 'frame', report.PROVED if okc else report.VIOLATED, 0.0, detail={'constants': vals},
                       model='designer and cache sub-namespaces collide or are not plain components: %r' % (vals,))
    # every concrete policy class inherits suggest (an override would escape this frame)
    subs = [c for c in mod.classes.values() if any(E.same_class(b, cls) for b in E.mro(c)[1:])]
    over = [c.name for c in subs if 'suggest' in c.methods]
    chk.obligation('C10.policy.suggest.not_overridden', '_SerializableDesignerPolicyBase', 'frame', report.PROVED if not over else report.UNDECIDED, 0.0,
                   detail={'subclasses': [c.name for c in subs], 'overriding': over})


# =========================================================================================== Namespace encode/_parse (bounded stand-in)
def check_namespace(chk, tier, pool):
    chk.function(COMMON, 'Namespace.encode', role='bounded stand-in')
    chk.function(COMMON, '_parse', role='bounded stand-in')
    chk.function(COMMON, 'Namespace.decode', role='bounded stand-in')
    res, raw = pool.get('namespace')
    bound = ('exhaustive run of the REAL Namespace.encode/decode over all tuples of <= 3 components, each of length <= 4 over the alphabet '
             "{':', '\\\\', 'a'} (plus the empty component): decode(encode(ns)) == ns and injectivity of encode")
    name = 'C10.Namespace.encode_decode.bounded'
    if res is None:
        chk.error(name, 'bounded stand-in did not run: %s' % raw[-500:])
        return
    f = chk.finding_for(name)
    summary = {k: res.get(k) for k in ('tuples', 'inverse_failures', 'collisions', 'first_inverse_failure', 'first_collision', 'witness_collides',
                                       'witness_encoding', 'witness_decode', 'inverse_failures_outside_class', 'collisions_outside_class')}
    outside = (res.get('inverse_failures_outside_class') or []) + (res.get('collisions_outside_class') or [])
    if not res.get('inverse_failures') and not res.get('collisions'):
        chk.bounded_standin(name, bound, 'held', summary)
    elif outside:
        chk.bounded_standin(name, bound, 'violated', summary)
        chk.obligation(name, 'Namespace.encode', 'bounded-exhaustive', report.VIOLATED, 0.0, detail=summary,
                       model='encode/decode fails on a namespace with NO component ending in a backslash: %s' % json.dumps(outside[:3]),
                       replay={'driver': 'replay/c10_replay.py namespace', 'counterexamples': outside[:5]}, reproduced=True)
    elif f is not None and res.get('witness_collides'):
        chk.bounded_standin(name, bound, 'known-finding (row 11); residual held: no failure among tuples without a component ending in a backslash', summary)
        line = 'KNOWN-FINDING: property=C10 [bounded check] %s' % f['what']
        if line not in chk.known_lines:
            chk.known_lines.append(line)
    else:
        w = res.get('first_collision') or res.get('first_inverse_failure')
        chk.bounded_standin(name, bound, 'violated', summary)
        chk.obligation(name, 'Namespace.encode', 'bounded-exhaustive', report.VIOLATED, 0.0, detail=summary,
                       model='encode/decode is not an inverse pair / not injective: %s' % json.dumps(w),
                       replay={'driver': 'replay/c10_replay.py namespace', 'counterexample': w}, reproduced=True)


def check_sql_effect(chk, tier, pool):
    """SQL path of UpdateMetadata, effect stated per NAMED trial -- a bounded stand-in on the real code (the deductive SQL refinement is C07/C05)."""
    chk.function(SQL, 'SQLDataStore.update_metadata', role='bounded stand-in')
    name = 'C10.sql.UpdateMetadata.effect_per_named_trial'
    bound = ('real VizierServicer on sqlite:///:memory:, 3-trial study with prior metadata; every ordered selection of 1..3 named trials (and repeated '
             'ids) in one delta + a study-level entry: ok => each named trial gets exactly its own updates, every other entry untouched; then a delta '
             'naming a missing trial: error reported and nothing stored')
    res, raw = pool.get('sql_effect')
    if res is None:
        chk.error(name, 'bounded stand-in did not run: %s' % raw[-500:])
    elif res.get('failures'):
        chk.bounded_standin(name, bound, 'violated', res)
        chk.obligation(name, 'SQLDataStore.update_metadata', 'bounded-native', report.VIOLATED, 0.0, detail={'scenarios': res.get('scenarios')},
                       model='UpdateMetadata on the SQL datastore does not apply each update to the trial it names: %s' % json.dumps(res['failures'][0])[:1500],
                       replay={'driver': 'replay/c10_replay.py sql_effect', 'failures': res['failures']}, reproduced=True)
    else:
        chk.bounded_standin(name, bound, 'held', {'scenarios': res.get('scenarios')})


# =========================================================================================== main
def main(tier):
    chk = report.Check('C10', tier, level='proof',
                       technique='contract-based deductive verification: VCs from the real AST (symbolic execution, loop invariants over '
                                 'symbolic dicts), z3; path fixed point for all-or-nothing; bounded model query + native replay for refutations')
    for t in ('pyvc VC generator and its Python/protobuf models (DESIGN 2, 4)', 'z3 5.1.0',
              'library model: sorted(dict.values(), key=f) is a permutation of the values, ascending by f (pyvc/symdict.py)'):
        chk.trust(t)
    for a in ('models.str_lt is a strict total order on strings (irreflexive, transitive, total): python compares str by code points',
              'protobuf runtime semantics as modelled in pyvc/protomodel.py (repeated-field extend copies the messages)',
              'logging has no effect'):
        chk.assume(a)
    ckit.arm_deadline(chk, 420 if tier == 'quick' else 2400)
    pool = ckit.ReplayPool()
    for key in ('ram_partial', 'servicer_join', 'trial_id_zero', 'metadata_core', 'inram_update_metadata', 'sql_effect', 'merge_native'):
        pool.start(key, 'c10_replay.py', [key])
    pool.start('namespace', 'c10_replay.py', ['namespace'], {'max_len': 4, 'max_comp': 3})
    for fname in ('merge_study_metadata', 'merge_trial_metadata'):
        check_merge(chk, fname, tier, pool)
    ram = check_ram(chk, tier, pool)
    check_servicer(chk, tier, ram, pool)
    check_metadata_core(chk, tier, pool)
    check_kv_conversion(chk, tier)
    check_inram_update(chk, tier, pool)
    check_policy_frame(chk, tier)
    check_sql_effect(chk, tier, pool)
    check_namespace(chk, tier, pool)
    return ckit.leave(chk.finish(min_obligations=10))
