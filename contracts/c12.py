"""C12 -- algorithms get each completed trial exactly once, and all active trials.

Deductive core (obligations generated from the current /repo source on every run; real ASTs executed by pyvc.engine):
  * IdDeduplicatingTrialLoader.{get_newly_completed_trials, get_active_trials, clear, dump, load}: sets as characteristic
    predicates (`Int -> Bool`), PolicySupporter.GetTrials by contract over the ghost list ALL of the study's trials;
    new = [t in ALL | COMPLETED, 1 <= id <= m, id not in inc], inc' = inc U ids(new); the `len(inc) == m` shortcut is sound
    under the class invariant inc subset [1..m] and the cardinality lemma (Lean: lean/C12.lean, thorough tier);
    dump/load identity on inc (json inverse pair assumed).
  * _SerializableDesignerPolicyBase.suggest (policy kept alive / rebuilt from stored state / stored state undecodable):
    Designer.update receives exactly (new completed, ALL active), before Designer.suggest, and the persisted state is inc'.
  * DesignerPolicy.suggest: a fresh designer receives all COMPLETED and all ACTIVE trials.
  * InRamPolicySupporter.GetTrials (loop invariant with append provenance), ServicePolicySupporter.GetTrials,
    TrialFilter.__call__: discharge the GetTrials contract used above.
  * History level: ghost `delivered` (set of trial identities); invariant J: inc = ids(delivered), inc subset [1..max id],
    every id in inc that exists is held by the delivered identity.  J is inductive for create / complete / suggest and for
    deletions that do not remove the max-id trial; with arbitrary deletions it is NOT (DESIGN 10 row 13: max_trial_id()+1
    re-uses the id of a deleted max-id trial) -> known finding, reproduced natively through the real service with a
    recording designer (replay/c12_replay.py history); the residual obligation is proved.
A non-proved obligation triggers the bounded model query (same engine, |ALL| <= 2) whose `sat` model is replayed natively.
"""
import ast
import json
import os
import re
import subprocess
import time

import z3

from pyvc import engine as E, models as M, protomodel as pm, report, source, ckit
from pyvc import mdmodel as MD, trialmodel as TM
from pyvc.ckit import QA, QE, conc
from pyvc.engine import Obj, ExcObj, PyRaise, Builtin, Unsupported
from pyvc.protomodel import Msg, SymList, Str
from pyvc.source import ModuleInfo
from pyvc.trialmodel import PT

CACHES = 'vizier._src.algorithms.policies.trial_caches'
POLICY = 'vizier._src.algorithms.policies.designer_policy'
ABS = 'vizier._src.algorithms.core.abstractions'
LPS = 'vizier._src.pythia.local_policy_supporters'
SPS = 'vizier._src.service.service_policy_supporter'
TRIALMOD = 'vizier._src.pyvizier.shared.trial'
COMMON = MD.COMMON
KEY = 'incorporated_completed_trials_ids'

COMPLETED, ACTIVE = TM.status_lit('COMPLETED'), TM.status_lit('ACTIVE')
IntSet = z3.ArraySort(z3.IntSort(), z3.BoolSort())


def method(mod, qual):
    c, f = ModuleInfo.get(mod).find(qual)
    return E.FuncVal(ModuleInfo.get(mod), f, c)


def elems(lst):
    """(n, get) of a list of trials that is either a python list of PT terms or an array-list."""
    if isinstance(lst, (list, tuple)):
        xs = [E.to_z3(x) for x in lst]
        return z3.IntVal(len(xs)), (lambda j: xs[conc(j)] if conc(j) is not None else _ite_index(xs, j))
    return lst.n, (lambda j: lst.arr[j])


def _ite_index(xs, j):
    r = xs[-1]
    for i in range(len(xs) - 2, -1, -1):
        r = z3.If(j == i, xs[i], r)
    return r


def is_filter_of(lst, ALL, keep, tag):
    """lst == [t for t in ALL if keep(t)]  (same elements, same order, no repetition)."""
    an, aget = ALL.n, (lambda i: ALL.arr[i])
    if isinstance(lst, (list, tuple)):
        # concrete result over a concrete ALL: position-wise
        A = conc(an)
        xs = [E.to_z3(x) for x in lst]
        if A is None:
            return z3.BoolVal(False)
        one = lambda c: z3.If(c, z3.IntVal(1), z3.IntVal(0))
        cnt = z3.Sum([one(keep(aget(z3.IntVal(i)))) for i in range(A)]) if A else z3.IntVal(0)
        parts = [cnt == len(xs)]
        for i in range(A):
            pos = z3.Sum([one(keep(aget(z3.IntVal(i2)))) for i2 in range(i)]) if i else z3.IntVal(0)
            for q in range(len(xs)):
                parts.append(z3.Implies(z3.And(keep(aget(z3.IntVal(i))), pos == q), xs[q] == aget(z3.IntVal(i))))
        return z3.And(*parts)
    prov = provenance(lst)
    if prov is None:
        return z3.BoolVal(False)
    src, pos = prov
    j, k, i = z3.Int('j!' + tag), z3.Int('k!' + tag), z3.Int('i!' + tag)
    if pos is not None:
        # the witness of "every kept element occurs" is the inverse provenance ghost (stronger than the existential statement)
        complete = z3.ForAll([i], z3.Implies(z3.And(i >= 0, i < an, keep(aget(i))), z3.And(pos(i) >= 0, pos(i) < lst.n, src(pos(i)) == i)))
    else:
        complete = z3.ForAll([i], z3.Implies(z3.And(i >= 0, i < an, keep(aget(i))), z3.Exists([j], z3.And(j >= 0, j < lst.n, src(j) == i))))
    return z3.And(
        lst.n >= 0,
        z3.ForAll([j], z3.Implies(z3.And(j >= 0, j < lst.n), z3.And(src(j) >= 0, src(j) < an, keep(aget(src(j))), lst.arr[j] == aget(src(j))))),
        z3.ForAll([j, k], z3.Implies(z3.And(j >= 0, j < k, k < lst.n), src(j) < src(k))),
        complete)


def provenance(lst, depth=0):
    """(src, pos) as functions on index terms, relative to the base list of the study (ALL / the stored protos), composed through any
    chain of comprehension filters and element-wise conversions the code happens to use (a pre-filter, a second filter, ...)."""
    if depth > 6:
        return None
    ident = (lambda j: j), (lambda i: i)
    if getattr(lst, 'prov_fn', None) is not None:
        return lst.prov_fn()
    conv = getattr(lst, 'conv_of', None)
    if conv is not None:
        return provenance(conv, depth + 1)
    src = getattr(lst, 'src', None)
    parent = getattr(lst, 'parent', None)
    if src is None or (not isinstance(lst, TM.ProvList) and parent is None):
        return ident                      # a base list
    pos = getattr(lst, 'pos', None)
    up = provenance(parent, depth + 1) if parent is not None else ident
    if up is None:
        return None
    usrc, upos = up
    return (lambda j: usrc(src[j])), ((lambda i: pos[upos(i)]) if (pos is not None and upos is not None) else None)


def ids_of(lst):
    n, get = elems(lst)
    return lambda x: QE(n, lambda j: PT.id(get(j)) == x, 'ids')


def set_pred(v):
    """characteristic predicate of a python-side set value of the engine."""
    if isinstance(v, TM.PredSet):
        return v.has
    if isinstance(v, M.PySet):
        return TM.as_predset(None, v).has
    raise Unsupported('not a set: %r' % (v,))


# =========================================================================================== state set-up
def loader_class():
    return ModuleInfo.get(CACHES).classes['IdDeduplicatingTrialLoader']


def setup_world(run, nall=None, finite_inc=None, m_max=None):
    """ghost study ALL, incorporated set inc0 (with cardinality), request bound m."""
    arr = z3.Const('ALL', z3.ArraySort(z3.IntSort(), PT))
    run.ALL = SymList(z3.IntVal(nall) if nall is not None else z3.Int('nall'), arr, TM.PT_KIND)
    run.assume(run.ALL.n >= 0)
    run.m = z3.Int('m')
    if finite_inc is None:
        inc0 = z3.Const('inc0', IntSet)
        c0 = z3.Int('card_inc0')
        run.assume(c0 >= 0)
        run.inc0 = lambda x: z3.Select(inc0, x)
        run.inc0_set = TM.from_array(inc0, c0)
        run.c0 = c0
        # cardinality lemma (lean/C12.lean: card_shortcut), instantiated for inc0 and m
        x = z3.Int('x!cl')
        run.card_lemma = z3.Implies(z3.And(z3.ForAll([x], z3.Implies(inc0[x], z3.And(1 <= x, x <= run.m))), c0 == run.m),
                                    z3.ForAll([x], z3.Implies(z3.And(1 <= x, x <= run.m), inc0[x])))
        run.subset = z3.ForAll([x], z3.Implies(inc0[x], z3.And(1 <= x, x <= run.m)))
    else:
        bs = [z3.Bool('inc0_%d' % i) for i in range(finite_inc)]
        run.inc_bits = bs
        run.inc0 = lambda x: z3.Or(*[z3.And(x == i, bs[i]) for i in range(finite_inc)])
        run.c0 = z3.Sum([z3.If(b, 1, 0) for b in bs])
        run.inc0_set = TM.PredSet(run.inc0, run.c0, finite=list(range(finite_inc)))
        run.card_lemma = z3.BoolVal(True)
        run.subset = z3.And(*[z3.Implies(bs[i], z3.And(1 <= i, z3.IntVal(i) <= run.m)) for i in range(finite_inc)])
        run.assume(run.m >= 0)
        run.assume(run.m <= m_max)
        for i in range(nall):
            t = arr[i]
            run.assume(z3.And(PT.id(t) >= 1, PT.id(t) < finite_inc))
            run.assume(z3.Or(*[PT.status(t) == TM.status_lit(s) for s in ('REQUESTED', 'ACTIVE', 'COMPLETED', 'STOPPING')]))
            for i2 in range(i):
                run.assume(PT.id(arr[i2]) != PT.id(t))


def mk_loader(run, inc=None):
    return Obj(loader_class(), {'_supporter': TM.SupporterRef(), '_incorporated_completed_trial_ids': inc if inc is not None else run.inc0_set.copy(),
                                '_include_intermediate_measurements': False})


def spec_new(run):
    return lambda t: z3.And(PT.status(t) == COMPLETED, PT.id(t) >= 1, PT.id(t) <= run.m, z3.Not(run.inc0(PT.id(t))))


def spec_active(t):
    return PT.status(t) == ACTIVE


def loader_inc(ld):
    return set_pred(ld.attrs['_incorporated_completed_trial_ids'])


def new_completed_obligations(run, result, inc_after, shortcut, P):
    """the contract of get_newly_completed_trials for a returned list `result` and resulting set `inc_after`."""
    x = z3.Int('x!nc')
    n, get = elems(result)
    obs = []
    if shortcut:
        # returns [] without looking: sound iff nothing new exists -- needs the class invariant inc0 subset [1..m] and |inc0| = m
        obs.append((P + 'get_newly_completed_trials.shortcut_sound',
                    z3.Implies(z3.And(run.subset, run.card_lemma), QA(run.ALL.n, lambda i: z3.Not(spec_new(run)(run.ALL.arr[i])), 'sc'))))
        obs.append((P + 'exactly_once', z3.ForAll([x], inc_after(x) == run.inc0(x))))
        return obs
    obs.append((P + 'get_newly_completed_trials.new_set', is_filter_of(result, run.ALL, spec_new(run), 'ns')))
    obs.append((P + 'only_completed', QA(n, lambda j: PT.status(get(j)) == COMPLETED, 'oc')))
    # delivered now <=> recorded now; nothing that was recorded before is delivered again
    obs.append((P + 'exactly_once', z3.And(z3.ForAll([x], inc_after(x) == z3.Or(run.inc0(x), ids_of(result)(x))),
                                           QA(n, lambda j: z3.Not(run.inc0(PT.id(get(j)))), 'eo'))))
    return obs


# =========================================================================================== loader
def loader_contracts(nall=None, finite_inc=None, m_max=None):
    P = 'C12.loader.'
    out = []

    def world(run):
        setup_world(run, nall, finite_inc, m_max)

    def e_new(it):
        run = it.run
        world(run)
        run.ld = mk_loader(run)
        return it.invoke(method(CACHES, 'IdDeduplicatingTrialLoader.get_newly_completed_trials'), [run.ld, run.m], {})

    def p_new(p):
        run = p.run
        if p.kind != 'return':
            return [(P + 'get_newly_completed_trials.no_raise', z3.BoolVal(False))]
        gts = [e for e in run.events if e[0] == 'GetTrials']
        return [(P + 'get_newly_completed_trials.no_raise', z3.BoolVal(True))] + \
            new_completed_obligations(run, p.value, loader_inc(run.ld), shortcut=not gts, P=P)
    out.append(('IdDeduplicatingTrialLoader.get_newly_completed_trials', e_new, p_new, 2))

    def e_act(it):
        run = it.run
        world(run)
        run.ld = mk_loader(run)
        return it.invoke(method(CACHES, 'IdDeduplicatingTrialLoader.get_active_trials'), [run.ld], {})

    def p_act(p):
        run = p.run
        if p.kind != 'return':
            return [(P + 'get_active_trials.all_active', z3.BoolVal(False))]
        x = z3.Int('x!ga')
        return [(P + 'get_active_trials.all_active', is_filter_of(p.value, run.ALL, spec_active, 'ga')),
                (P + 'get_active_trials.inc_unchanged', z3.ForAll([x], loader_inc(run.ld)(x) == run.inc0(x)))]
    out.append(('IdDeduplicatingTrialLoader.get_active_trials', e_act, p_act, 1))

    def e_clear(it):
        run = it.run
        world(run)
        run.ld = mk_loader(run)
        it.invoke(method(CACHES, 'IdDeduplicatingTrialLoader.clear'), [run.ld], {})
        # after clear() the next call returns every completed trial with 1 <= id <= m
        return it.invoke(method(CACHES, 'IdDeduplicatingTrialLoader.get_newly_completed_trials'), [run.ld, run.m], {})

    def p_clear(p):
        run = p.run
        if p.kind != 'return':
            return [(P + 'clear.redelivers_everything', z3.BoolVal(False))]
        gts = [e for e in run.events if e[0] == 'GetTrials']
        allc = lambda t: z3.And(PT.status(t) == COMPLETED, PT.id(t) >= 1, PT.id(t) <= run.m)
        if not gts:
            # len(set()) == m, i.e. m == 0: nothing has an id in [1..0]
            return [(P + 'clear.redelivers_everything', QA(run.ALL.n, lambda i: z3.Not(allc(run.ALL.arr[i])), 'cl'))]
        return [(P + 'clear.redelivers_everything', is_filter_of(p.value, run.ALL, allc, 'cl'))]
    out.append(('IdDeduplicatingTrialLoader.clear', e_clear, p_clear, 1))

    def e_dl(it):
        run = it.run
        world(run)
        run.ld = mk_loader(run)
        md = it.invoke(method(CACHES, 'IdDeduplicatingTrialLoader.dump'), [run.ld], {})
        other = z3.Const('inc_other', IntSet)
        run.ld2 = mk_loader(run, TM.from_array(other))
        it.invoke(method(CACHES, 'IdDeduplicatingTrialLoader.load'), [run.ld2, md], {})
        return md

    def p_dl(p):
        run = p.run
        if p.kind != 'return':
            return [(P + 'dump_load.identity', z3.BoolVal(False))]
        x = z3.Int('x!dl')
        return [(P + 'dump_load.identity', z3.ForAll([x], loader_inc(run.ld2)(x) == run.inc0(x))),
                (P + 'dump_load.dump_is_pure', z3.ForAll([x], loader_inc(run.ld)(x) == run.inc0(x)))]
    out.append(('IdDeduplicatingTrialLoader.dump', e_dl, p_dl, 1))

    def e_load_bad(it):
        run = it.run
        world(run)
        run.ld = mk_loader(run)
        md = M.construct(it, ModuleInfo.get(COMMON).classes['Metadata'], [], {})
        if run.choose(z3.Bool('has_key')):
            M.setitem(it, md, KEY, z3.Const('stored_text', Str))
            run.has_key = True
        else:
            run.has_key = False
        return it.invoke(method(CACHES, 'IdDeduplicatingTrialLoader.load'), [run.ld, md], {})

    def p_load_bad(p):
        run = p.run
        x = z3.Int('x!lb')
        if p.kind == 'raise':
            cls = E.class_name(p.value.cls)
            return [(P + 'load.harmless_failure', z3.And(z3.BoolVal(cls == 'HarmlessDecodeError'), z3.ForAll([x], loader_inc(run.ld)(x) == run.inc0(x))))]
        return [(P + 'load.missing_key_raises', z3.BoolVal(run.has_key))]
    out.append(('IdDeduplicatingTrialLoader.load', e_load_bad, p_load_bad, 2))
    return out


# =========================================================================================== policies
def _opaque(tag):
    def ctor(it, args, kw):
        return Obj('opaque:' + tag, dict(kw, _args=tuple(args)))
    return ctor


def _trial_group(tag, want):
    """CompletedTrials(trials) / ActiveTrials(trials): __attrs_post_init__ raises ValueError unless every trial has the status."""
    def ctor(it, args, kw):
        trials = args[0] if args else kw.get('trials')
        n, get = elems(trials)
        it.run.oblige('C12.%s.requires.all_%s' % (tag, 'completed' if want is COMPLETED else 'active'), QA(n, lambda j: PT.status(get(j)) == want, 'tg'))
        return Obj('opaque:' + tag, {'trials': trials})
    return ctor


E.MODELS[ABS + ':CompletedTrials'] = _trial_group('CompletedTrials', COMPLETED)
E.MODELS[ABS + ':ActiveTrials'] = _trial_group('ActiveTrials', ACTIVE)
def _suggest_decision(it, args, kw):
    """pythia.SuggestDecision(suggestions, metadata=...): a plain record of its two fields"""
    vals = dict(kw)
    for nm, v in zip(('suggestions', 'metadata'), args):
        vals[nm] = v
    return Obj('opaque:SuggestDecision', {'suggestions': vals.get('suggestions'), 'metadata': vals.get('metadata')})


E.MODELS['vizier._src.pythia.policy:SuggestDecision'] = _suggest_decision


def _metadata_delta(it, args, kw):
    if args or kw:
        raise Unsupported('MetadataDelta(...) with arguments')
    mdc = ModuleInfo.get(COMMON).classes['Metadata']
    return Obj(ModuleInfo.get(TRIALMOD).classes['MetadataDelta'], {'on_study': M.construct(it, mdc, [], {}), 'on_trials': M.PyDict(default_factory=mdc)})


E.MODELS[TRIALMOD + ':MetadataDelta'] = _metadata_delta


def policy_class(name='PartiallySerializableDesignerPolicy'):
    return ModuleInfo.get(POLICY).classes[name]


def designer_dump(it, d):
    """Designer.dump(): any metadata -- represented by one arbitrary entry at an arbitrary namespace."""
    run = it.run
    md = M.construct(it, ModuleInfo.get(COMMON).classes['Metadata'], [], {})
    c, m = E.find_method(md.cls, 'abs_ns')
    sub = it.invoke(E.FuncVal(c.mod, m, c), [md, MD.fresh_tuple(run, 'dump_ns')], {})
    M.setitem(it, sub, z3.Const('dump_key', Str), z3.Const('dump_val', Str))
    return md


def stored_entries(md):
    """[(namespace seq term, key, value)] of a Metadata object of the engine."""
    out = []
    for nsobj, store in md.attrs['_stores'].items_:
        for k, v in store.items_:
            out.append((MD.seq_of(nsobj.attrs['_as_tuple']), k, v))
    return out


def policy_entry(config, nall=None, finite_inc=None, m_max=None):
    """config: 'alive' (designer kept in RAM) | 'restored' (rebuilt per request, state read from study metadata)"""
    def entry(it):
        run = it.run
        setup_world(run, nall, finite_inc, m_max)
        run.designer_dump = designer_dump
        run.decode_error_class = ModuleInfo.get('vizier.interfaces.serializable').classes['DecodeError']
        ns_root = z3.Const('ns_root', Str)
        run.ns_root = ns_root
        sup = TM.SupporterRef()
        problem = Obj('opaque:ProblemStatement', {})
        mdc = ModuleInfo.get(COMMON).classes['Metadata']
        problem.attrs['metadata'] = M.construct(it, mdc, [], {})
        if config == 'alive':
            designer = TM.DesignerRef('kept')
            ld = mk_loader(run)
        else:
            designer = None
            # the loader starts from an unrelated set; the stored state is dump() of a loader holding inc0
            ld = mk_loader(run, TM.from_array(z3.Const('inc_stale', IntSet)))
            lst = TM.list_of_set(it, run.inc0_set)
            store = it.invoke(E.FuncVal(*_find(mdc, 'abs_ns')), [problem.attrs['metadata'], (ns_root, 'cache')], {})
            M.setitem(it, store, KEY, TM.json_dumps_ints(lst.n, lst.arr))
        ld.attrs['_supporter'] = sup
        run.ld = ld
        factory = Builtin('designer_factory', lambda it_, args, kw: (it_.run.event('designer_factory'), TM.DesignerRef('new%d' % len(it_.run.events)))[1])
        pol = Obj(policy_class(), {'_supporter': sup, '_designer_factory': factory, '_ns_root': ns_root, '_cache': ld, '_problem_statement': problem,
                                   '_verbose': 0, '_designer': designer, '_seed': None, '_policy_name': 'p'})
        run.pol = pol
        req = Obj('opaque:SuggestRequest', {'study_config': problem, 'max_trial_id': run.m, 'count': z3.Int('count'), 'study_guid': 'g'})
        return it.invoke(method(POLICY, '_SerializableDesignerPolicyBase.suggest'), [pol, req], {})
    return entry


def _find(cls, name):
    c, m = E.find_method(cls, name)
    return c.mod, m, c


def policy_post(config):
    P = 'C12.policy.suggest.'

    def post(p):
        run = p.run
        if p.kind != 'return':
            return [(P + 'no_raise', z3.BoolVal(False))]
        obs = [(P + 'no_raise', z3.BoolVal(True))]
        ev = [e for e in run.events if e[0].startswith('designer.') or e[0] in ('GetTrials', 'designer_factory')]
        ups = [e for e in ev if e[0] == 'designer.update']
        names = [e[0] for e in ev]
        if len(ups) != 1:
            return obs + [(P + 'update_args', z3.BoolVal(False))]
        _, tag, completed, active = ups[0][:4]
        load_failed = config == 'restored' and any(e[0] == 'designer_factory' for e in ev) and names.count('designer_factory') == 2
        x = z3.Int('x!pp')
        inc_after = loader_inc(run.ld)
        gts = [e for e in ev if e[0] == 'GetTrials']
        shortcut = not any(e[1].get('status_matches') == 'COMPLETED' for e in gts)
        sub = 'C12.policy.suggest.'
        if load_failed:
            # stored designer state undecodable: a fresh designer gets every completed trial (cache cleared)
            allc = lambda t: z3.And(PT.status(t) == COMPLETED, PT.id(t) >= 1, PT.id(t) <= run.m)
            if shortcut:
                args_ok = z3.And(z3.BoolVal(isinstance(completed, (list, tuple)) and not completed), QA(run.ALL.n, lambda i: z3.Not(allc(run.ALL.arr[i])), 'lf'))
            else:
                args_ok = is_filter_of(completed, run.ALL, allc, 'lf')
            obs.append((P + 'update_args', z3.And(args_ok, is_filter_of(active, run.ALL, spec_active, 'pa'))))
        else:
            parts = dict(new_completed_obligations(run, completed, inc_after, shortcut, sub))
            key = sub + ('get_newly_completed_trials.shortcut_sound' if shortcut else 'get_newly_completed_trials.new_set')
            obs.append((P + 'update_args', z3.And(parts[key], is_filter_of(active, run.ALL, spec_active, 'pa'))))
            obs.append((P + 'inc_updated', parts[sub + 'exactly_once']))
        # update precedes suggest; the designer that is asked is the one that was updated
        sg = [e for e in ev if e[0] == 'designer.suggest']
        obs.append((P + 'update_before_suggest', z3.BoolVal(len(sg) == 1 and names.index('designer.update') < names.index('designer.suggest') and sg[0][1] == tag)))
        # the state handed back for persistence is the state AFTER this update, under Namespace([ns_root, 'cache'])
        dec = p.value
        delta = dec.attrs.get('metadata') if isinstance(dec, Obj) else None
        found = []
        if isinstance(delta, Obj) and 'on_study' in delta.attrs:
            found = [(ns, k, v) for ns, k, v in stored_entries(delta.attrs['on_study']) if isinstance(k, str) and k == KEY]
        ok = z3.BoolVal(False)
        if len(found) == 1 and z3.is_expr(found[0][2]) and z3.is_app(found[0][2]) and found[0][2].decl().eq(TM.json_dumps_ints):
            ns, k, v = found[0]
            n, arr = v.arg(0), v.arg(1)
            listed = [s_ for (n_, a_, s_) in getattr(run, 'set_listings', []) if n_.eq(n) and a_.eq(arr)]
            if listed:
                # the stored text is json.dumps(list(S)): S must be the set after this update
                ok = z3.And(ns == z3.Concat(z3.Unit(run.ns_root), z3.Unit(pm.str_lit('cache'))), z3.ForAll([x], listed[0].has(x) == inc_after(x)))
        obs.append((P + 'state_persisted', ok))
        if config == 'restored' and not load_failed:
            obs.append((P + 'restored_designer_used', z3.BoolVal(names.count('designer_factory') == 1 and 'designer.load' in names)))
        return obs
    return post


def designer_policy_entry(nall=None):
    def entry(it):
        run = it.run
        setup_world(run, nall, None if nall is None else 8, None if nall is None else 4)
        sup = TM.SupporterRef()
        factory = Builtin('designer_factory', lambda it_, args, kw: (it_.run.event('designer_factory'), TM.DesignerRef('new%d' % len(it_.run.events)))[1])
        pol = Obj(policy_class('DesignerPolicy'), {'_supporter': sup, '_designer_factory': factory, '_policy_name': 'p', '_use_seeding': False})
        req = Obj('opaque:SuggestRequest', {'study_config': Obj('opaque:ProblemStatement', {}), 'max_trial_id': run.m, 'count': z3.Int('count'), 'study_guid': 'g'})
        return it.invoke(method(POLICY, 'DesignerPolicy.suggest'), [pol, req], {})
    return entry


def designer_policy_post(p):
    P = 'C12.DesignerPolicy.suggest.'
    run = p.run
    if p.kind != 'return':
        return [(P + 'all_trials', z3.BoolVal(False))]
    ev = [e for e in run.events if e[0].startswith('designer') ]
    names = [e[0] for e in ev]
    ups = [e for e in ev if e[0] == 'designer.update']
    if len(ups) != 1:
        return [(P + 'all_trials', z3.BoolVal(False))]
    _, tag, completed, active = ups[0][:4]
    allc = lambda t: PT.status(t) == COMPLETED
    return [(P + 'all_trials', z3.And(is_filter_of(completed, run.ALL, allc, 'dc'), is_filter_of(active, run.ALL, spec_active, 'da'))),
            (P + 'fresh_designer', z3.BoolVal(names.count('designer_factory') == 1 and names.index('designer_factory') < names.index('designer.update')
                                              and tag.startswith('new'))),
            (P + 'update_before_suggest', z3.BoolVal('designer.suggest' in names and names.index('designer.update') < names.index('designer.suggest')))]


# =========================================================================================== GetTrials implementations
ARG_CONFIGS = [dict(), dict(trial_ids=1), dict(min_trial_id=1), dict(max_trial_id=1), dict(status_matches=1),
               dict(trial_ids=1, status_matches=1), dict(trial_ids=1, min_trial_id=1, max_trial_id=1, status_matches=1)]


def gt_kwargs(run, cfg):
    kw = {}
    if cfg.get('trial_ids'):
        kw['trial_ids'] = TM.from_array(z3.Const('arg_ids', IntSet))
    if cfg.get('min_trial_id'):
        kw['min_trial_id'] = z3.Int('arg_min')
    if cfg.get('max_trial_id'):
        kw['max_trial_id'] = z3.Int('arg_max')
    if cfg.get('status_matches'):
        kw['status_matches'] = z3.Const('arg_status', Str)
        run.assume(z3.Or(*[kw['status_matches'] == TM.status_lit(s) for s in TM.STATUSES]))
    return kw


class InRamShape:
    def __init__(self):
        self.mod = ModuleInfo.get(LPS)
        self.cls = self.mod.classes['InRamPolicySupporter']
        self.fn = self.cls.methods['GetTrials']
        # the output accumulator: the local initialised with [] that is returned
        self.out_name = None
        for n in ast.walk(self.fn):
            tgt = val = None
            if isinstance(n, ast.Assign) and len(n.targets) == 1:
                tgt, val = n.targets[0], n.value
            elif isinstance(n, ast.AnnAssign) and n.value is not None:
                tgt, val = n.target, n.value
            if isinstance(tgt, ast.Name) and isinstance(val, ast.List) and not val.elts:
                self.out_name = tgt.id


def install_inram_loop(shape):
    def inv(it, fr, ctx):
        run = it.run
        xs = ctx.iter
        if ctx.phase == 'init' and not isinstance(fr.env.get(shape.out_name), TM.ProvList):
            fr.env[shape.out_name] = TM.empty_provlist(TM.PT_KIND)
        out = fr.env[shape.out_name]
        if ctx.phase == 'head':
            from pyvc import symdict as SD
            SD.set_clock(run, ctx.i)
            out.src = run.fresh('out_src', z3.ArraySort(z3.IntSort(), z3.IntSort()))
            out.pos = run.fresh('out_pos', z3.ArraySort(z3.IntSort(), z3.IntSort()))
        i = ctx.i
        keep = run.keep
        j, k, t = z3.Int('j!ir'), z3.Int('k!ir'), z3.Int('t!ir')
        return [('bounds', z3.And(out.n >= 0, out.n <= i)),
                ('sound', z3.ForAll([j], z3.Implies(z3.And(j >= 0, j < out.n), z3.And(out.src[j] >= 0, out.src[j] < i, keep(xs.arr[out.src[j]]),
                                                                                        out.arr[j] == xs.arr[out.src[j]])))),
                ('ordered', z3.ForAll([j, k], z3.Implies(z3.And(j >= 0, j < k, k < out.n), out.src[j] < out.src[k]))),
                ('complete', z3.ForAll([t], z3.Implies(z3.And(t >= 0, t < i, keep(xs.arr[t])), z3.And(out.pos[t] >= 0, out.pos[t] < out.n, out.src[out.pos[t]] == t))))]
    E.LOOPS[(LPS, 'InRamPolicySupporter.GetTrials', 1)] = E.LoopSpec(inv)


def inram_entry(shape, cfg, nall=None):
    def entry(it):
        run = it.run
        setup_world(run, nall, None if nall is None else 8, None if nall is None else 4)
        kw = gt_kwargs(run, cfg)
        run.kw = kw
        run.keep = TM.keep_fn(kw)
        sup = Obj(shape.cls, {'study_guid': 'g', 'prior_studies': M.PyDict(), '_trials': None})
        E.PROPERTIES[LPS + ':InRamPolicySupporter.trials'] = lambda it_, o: SymList(it_.run.ALL.n, it_.run.ALL.arr, TM.PT_KIND)
        return it.invoke(E.FuncVal(shape.mod, shape.fn, shape.cls), [sup], dict(kw))
    return entry


def gt_post(name):
    def post(p):
        run = p.run
        if p.kind != 'return':
            return [(name + '.no_raise', z3.BoolVal(False))]
        return [(name + '.filter', is_filter_of(p.value, run.ALL, run.keep, 'gt'))]
    return post


# ---- ServicePolicySupporter.GetTrials: ListTrials (all trials of the study, C01) -> TrialConverter.from_protos -> TrialFilter
class ServiceRef:
    pass


TRIALP = lambda: pm.registry().msgs['vizier.Trial']
CONV = 'vizier._src.pyvizier.oss.proto_converters'
conv_id = None
conv_ident = None
_STATUS_TABLE = {}


def status_table():
    """proto Trial.State -> TrialStatus, DERIVED by executing the real `_to_pyvizier_trial_status` on every enum value."""
    key = source.REPO
    if key not in _STATUS_TABLE:
        mod = ModuleInfo.get(CONV)
        fn = mod.funcs['_to_pyvizier_trial_status']
        states = pm.registry().enums['vizier.Trial.State'].values
        tab = {}
        for name, num in states.items():
            paths = E.explore(lambda it, num=num: it.invoke(E.FuncVal(mod, fn), [num], {}))
            vals = {p.value for p in paths if p.kind == 'return' and isinstance(p.value, str)}
            if len(paths) != 1 or len(vals) != 1:
                raise Unsupported('_to_pyvizier_trial_status(%s) is not a function of the state alone' % name)
            tab[num] = vals.pop()
        _STATUS_TABLE[key] = tab
    return _STATUS_TABLE[key]


def conv_term(p):
    """the pyvizier trial (id, status, identity) that TrialConverter.from_proto makes of a stored proto term"""
    global conv_id, conv_ident
    if conv_id is None:
        conv_id = z3.Function('conv_trial_id', pm.msg_sort(TRIALP()), z3.IntSort())
        conv_ident = z3.Function('conv_trial_ident', pm.msg_sort(TRIALP()), z3.IntSort())
    st = pm.accessor(TRIALP(), 'state')(p)
    status = TM.status_lit('UNKNOWN')
    for num, name in sorted(status_table().items(), reverse=True):
        status = z3.If(st == num, TM.status_lit(name), status)
    return PT.mk(conv_id(p), status, conv_ident(p))


def setup_protos(run, nall):
    """the study as stored: PROTOS (creation order, what ListTrials returns); ALL = its element-wise conversion"""
    arr = z3.Const('PROTOS', z3.ArraySort(z3.IntSort(), pm.msg_sort(TRIALP())))
    run.PROTOS = SymList(run.ALL.n, arr, TRIALP())
    conv_term(arr[0])
    # lookup by id (GetTrial): idx_of(id) = position of the stored trial with that id.  Stored trials are in creation order, which is
    # ascending id order with distinct ids (ids are allocated max_trial_id()+1: C12.history.id_allocation.*, C01.ListTrials.effect)
    run.idx_of = z3.Function('idx_of_trial_id', z3.IntSort(), z3.IntSort())
    if nall is None:
        i, i2 = z3.Int('i!pr'), z3.Int('i2!pr')
        run.axiom(z3.ForAll([i], z3.Implies(z3.And(i >= 0, i < run.ALL.n), run.ALL.arr[i] == conv_term(arr[i]))))
        run.axiom(z3.ForAll([i], z3.Implies(z3.And(i >= 0, i < run.ALL.n), run.idx_of(conv_id(arr[i])) == i)))
        run.axiom(z3.ForAll([i, i2], z3.Implies(z3.And(i >= 0, i < i2, i2 < run.ALL.n), conv_id(arr[i]) < conv_id(arr[i2]))))
    else:
        for i in range(nall):
            run.assume(run.idx_of(conv_id(arr[i])) == i)
            for i2 in range(i):
                run.assume(conv_id(arr[i2]) < conv_id(arr[i]))
    if nall is not None:
        for i in range(nall):
            run.assume(run.ALL.arr[i] == conv_term(arr[i]))
            st = pm.accessor(TRIALP(), 'state')(arr[i])
            run.assume(z3.And(st >= 1, st <= 5))


def _list_trials(it, args, kw):
    run = it.run
    run.event('ListTrials')
    p = run.PROTOS
    return Obj('opaque:ListTrialsResponse', {'trials': SymList(p.n, p.arr, p.elem)})


def _from_protos(it, args, kw):
    """TrialConverter.from_protos: element-wise, order preserving (C09); id/identity are functions of the proto, the status is the
    real `_to_pyvizier_trial_status` of its state."""
    it.run.assumed.add('TrialConverter.from_protos is element-wise and order preserving; the status of a converted trial is _to_pyvizier_trial_status(state) '
                       '(table derived from the real function on every run)')
    run = it.run
    xs = args[-1]
    conc_ = M.try_iterate(it, xs)
    if conc_ is not None:
        return [conv_term(E.to_z3(x)) for x in conc_]
    if not isinstance(xs, SymList):
        raise Unsupported('TrialConverter.from_protos(%r)' % (xs,))
    out = run.fresh('converted', z3.ArraySort(z3.IntSort(), PT))
    j = z3.Int('j!cv')
    run.axiom(z3.ForAll([j], z3.Implies(z3.And(j >= 0, j < xs.n), out[j] == conv_term(xs.arr[j]))))
    r = SymList(xs.n, out, TM.PT_KIND)
    r.conv_of = xs
    return r


def trial_id_of_name(term):
    """the trial id inside a resource name built as f'{study}/trials/{id}' (canonical names, DESIGN 4.3)"""
    if z3.is_expr(term) and z3.is_app(term) and term.decl().name().startswith('fstr!'):
        for (tmpl, sorts), fn in M._FSTR.items():
            if fn.eq(term.decl()) and len(tmpl) == 3 and tmpl[1] == '/trials/' and term.num_args() == 2 and term.arg(1).sort() == z3.IntSort():
                return term.arg(1)
    return None


def stored_exists(run, tid):
    k = run.idx_of(tid)
    return z3.And(k >= 0, k < run.PROTOS.n, conv_id(run.PROTOS.arr[k]) == tid)


def _get_trial(it, args, kw):
    """VizierServicer.GetTrial by the DataStore contract (Appendix A): the stored proto, or NotFoundError (a KeyError)."""
    run = it.run
    req = args[-1]
    tid = trial_id_of_name(E.to_z3(req.get('name')))
    if tid is None:
        raise Unsupported('GetTrial with a name that is not f"{study}/trials/{id}"')
    run.event('GetTrial', tid)
    if it.truth(stored_exists(run, tid)):
        return Msg.from_term(TRIALP(), run.PROTOS.arr[run.idx_of(tid)])
    cls = ModuleInfo.get('vizier._src.service.custom_errors').classes['NotFoundError']
    raise PyRaise(ExcObj(cls, {'args': ('No such trial',)}))


def _service_getattr(it, v, a):
    if isinstance(v, ServiceRef) and a == 'ListTrials':
        return E.Bound(v, Builtin('vizier_service.ListTrials', _list_trials))
    if isinstance(v, ServiceRef) and a == 'GetTrial':
        return E.Bound(v, Builtin('vizier_service.GetTrial', _get_trial))
    return M.MISSING


_prev_vg = M.value_getattr_hook


def _vg(it, v, a):
    r = _service_getattr(it, v, a)
    if r is not M.MISSING:
        return r
    return _prev_vg(it, v, a)


M.value_getattr_hook = _vg
E.MODELS[CONV + ':TrialConverter.from_protos'] = _from_protos


def trial_filter_class():
    return ModuleInfo.get(TRIALMOD).classes['TrialFilter']


def _trial_filter_ctor(it, args, kw):
    """attrs-generated __init__ of TrialFilter: the converters are the lambdas written in the class body (evaluated by the engine)."""
    cls = trial_filter_class()
    names = [n for n in cls.field_order if n in cls.annotations]
    vals = dict(zip(names, args))
    vals.update(kw)
    o = Obj(cls, {})
    for n in names:
        v = vals.get(n)
        decl = cls.assigns.get(n)
        conv = None
        if isinstance(decl, ast.Call):
            for k in decl.keywords:
                if k.arg == 'converter':
                    conv = k.value
                if k.arg == 'default' and n not in vals:
                    v = it.eval(E.Frame(cls.mod, {}), k.value)
        if conv is not None:
            v = it.call(it.eval(E.Frame(cls.mod, {}), conv), [v], {})
        o.attrs[n] = v
    it.run.assumed.add('TrialFilter validators accept int ids and TrialStatus members')
    return o


E.MODELS[TRIALMOD + ':TrialFilter'] = _trial_filter_ctor


def trial_filter_keep(o):
    ids, lo, hi, st = o.attrs.get('ids'), o.attrs.get('min_id'), o.attrs.get('max_id'), o.attrs.get('status')

    def keep(t):
        cs = []
        if ids is not None:
            cs.append(set_pred(ids)(PT.id(t)))
        if lo is not None:
            cs.append(PT.id(t) >= E.as_int(lo))
        if hi is not None:
            cs.append(PT.id(t) <= E.as_int(hi))
        if st is not None:
            if isinstance(st, M.PySet):
                cs.append(z3.Or(*[PT.status(t) == E.to_z3(s) for s in st.elems]) if st.elems else z3.BoolVal(False))
            else:
                raise Unsupported('TrialFilter.status of an unknown shape')
        return z3.And(*cs) if cs else z3.BoolVal(True)
    return keep


def trial_filter_entry(cfg):
    """TrialFilter.__call__ on the REAL AST: returns True iff the trial passes every configured condition."""
    def entry(it):
        run = it.run
        kw = {}
        if cfg.get('trial_ids'):
            kw['ids'] = TM.from_array(z3.Const('arg_ids', IntSet))
        if cfg.get('min_trial_id'):
            kw['min_id'] = z3.Int('arg_min')
        if cfg.get('max_trial_id'):
            kw['max_id'] = z3.Int('arg_max')
        if cfg.get('status_matches'):
            s = z3.Const('arg_status', Str)
            kw['status'] = [s]
        o = _trial_filter_ctor(it, [], kw)
        run.flt = o
        run.t = z3.Const('trial', PT)
        c, m = E.find_method(o.cls, '__call__')
        return it.invoke(E.FuncVal(c.mod, m, c), [o, run.t], {})
    return entry


def trial_filter_post(p):
    run = p.run
    if p.kind != 'return' or not isinstance(p.value, bool):
        return [('C12.TrialFilter.__call__.iff', z3.BoolVal(False))]
    k = trial_filter_keep(run.flt)(run.t)
    return [('C12.TrialFilter.__call__.iff', k if p.value else z3.Not(k))]


def _trial_filter_call_contract(it, args, kw):
    """callee contract of TrialFilter.__call__ (proved as C12.TrialFilter.__call__.iff): the conjunction of its conditions."""
    return trial_filter_keep(args[0])(E.to_z3(args[1]))


def service_entry(cfg, nall=None):
    def entry(it):
        run = it.run
        setup_world(run, nall, None if nall is None else 8, None if nall is None else 4)
        setup_protos(run, nall)
        kw = gt_kwargs(run, cfg)
        run.kw = kw
        run.keep = TM.keep_fn(kw)
        cls = ModuleInfo.get(SPS).classes['ServicePolicySupporter']
        sup = Obj(cls, {'_study_guid': 'owners/o/studies/s', '_vizier_service': ServiceRef()})
        E.MODELS[TRIALMOD + ':TrialFilter.__call__'] = _trial_filter_call_contract
        try:
            return it.invoke(E.FuncVal(cls.mod, cls.methods['GetTrials'], cls), [sup], dict(kw))
        finally:
            E.MODELS.pop(TRIALMOD + ':TrialFilter.__call__', None)
    return entry


def service_loop_invariant(it, fr, ctx):
    """Loops of ServicePolicySupporter.GetTrials by ROLE:
       fetch  : `for id in sorted(set(trial_ids)): try: out.append(GetTrial(id)) except KeyError: continue`
                out = [stored(L[t]) | t < i, a trial with id L[t] is stored]  (append provenance src/pos)
       other  : e.g. `for t in filtered: t.measurements = []` -- touches nothing of (id, status, identity): no facts needed."""
    run = it.run
    L = ctx.iter
    if not isinstance(L, SymList) or getattr(L, 'sorted_set', None) is None or not hasattr(run, 'PROTOS'):
        return []
    names = [k for k, v in fr.env.items() if (isinstance(v, list) and not v) or (isinstance(v, TM.ProvList) and getattr(v.elem, 'fq', None) == 'vizier.Trial')]
    if len(names) != 1:
        return []
    on = names[0]
    if ctx.phase == 'init' and not isinstance(fr.env[on], TM.ProvList):
        fr.env[on] = TM.empty_provlist(TRIALP())
    out = fr.env[on]
    if ctx.phase == 'head':
        from pyvc import symdict as SD
        SD.set_clock(run, ctx.i)
        out.src = run.fresh('fetch_src', z3.ArraySort(z3.IntSort(), z3.IntSort()))
        out.pos = run.fresh('fetch_pos', z3.ArraySort(z3.IntSort(), z3.IntSort()))
    S, lpos = L.sorted_set
    P = run.PROTOS

    def prov_fn(out=out, L=L, lpos=lpos):
        return (lambda j: run.idx_of(L.arr[out.src[j]])), (lambda i_: out.pos[lpos[conv_id(P.arr[i_])]])
    out.prov_fn = prov_fn
    i = ctx.i
    j, k, t = z3.Int('j!fl'), z3.Int('k!fl'), z3.Int('t!fl')
    ex = lambda x: stored_exists(run, x)
    return [('fetch.bounds', z3.And(out.n >= 0, out.n <= i)),
            ('fetch.sound', z3.ForAll([j], z3.Implies(z3.And(j >= 0, j < out.n), z3.And(out.src[j] >= 0, out.src[j] < i, ex(L.arr[out.src[j]]),
                                                                                        out.arr[j] == P.arr[run.idx_of(L.arr[out.src[j]])])))),
            ('fetch.ordered', z3.ForAll([j, k], z3.Implies(z3.And(j >= 0, j < k, k < out.n), out.src[j] < out.src[k]))),
            ('fetch.complete', z3.ForAll([t], z3.Implies(z3.And(t >= 0, t < i, ex(L.arr[t])), z3.And(out.pos[t] >= 0, out.pos[t] < out.n, out.src[out.pos[t]] == t))))]


def install_service_loop():
    fn = ModuleInfo.get(SPS).classes['ServicePolicySupporter'].methods['GetTrials']
    for k in range(1, len([n for n in ast.walk(fn) if isinstance(n, (ast.For, ast.While))]) + 1):
        E.LOOPS[(SPS, 'ServicePolicySupporter.GetTrials', k)] = E.LoopSpec(service_loop_invariant)


# =========================================================================================== history level
def history_obligations(chk, tier, pool):
    """Abstract history of one study: maps over trial ids (exists, status, ident), ghost sets delivered (identities), inc (ids).
    Steps: create (id = max existing id + 1, fresh identity), complete(id), delete(id), suggest (the loader contract proved above)."""
    t0 = time.time()
    I, B = z3.IntSort(), z3.BoolSort()
    arr = lambda n, r: z3.Const(n, z3.ArraySort(I, r))
    ex, st, ident, inc, deliv = arr('ex', B), arr('st', Str), arr('ident', I), arr('inc', B), arr('deliv', B)
    idof = arr('idof', I)          # ghost: the id an identity was created with
    used = arr('used', B)          # ghost: identities ever created
    mx = z3.Int('mx')
    x, u = z3.Int('x!h'), z3.Int('u!h')

    def J(ex, st, ident, inc, deliv, idof, used, mx, restricted=True):
        return z3.And(
            mx >= 0,
            z3.ForAll([x], z3.Implies(ex[x], z3.And(1 <= x, x <= mx, used[ident[x]], idof[ident[x]] == x))),       # existing trials: id range, identity bookkeeping
            z3.Or(mx == 0, ex[mx]),
            z3.ForAll([u], z3.Implies(deliv[u], z3.And(used[u], inc[idof[u]]))),                                 # ids(delivered) subset inc
            z3.ForAll([x], z3.Implies(inc[x], z3.And(1 <= x, x <= mx))),                                         # inc subset [1..max id]   (class invariant of the loader)
            z3.ForAll([x], z3.Implies(z3.And(inc[x], ex[x]), deliv[ident[x]])),                                  # an incorporated id that exists is held by the delivered identity
        )

    def P(ex, st, ident, inc, deliv):
        # after a suggest step every completed trial has been delivered
        return z3.ForAll([x], z3.Implies(z3.And(ex[x], st[x] == COMPLETED), deliv[ident[x]]))

    pre = J(ex, st, ident, inc, deliv, idof, used, mx)
    results = {}

    def prove(name, hyp, goal, timeout=10000 if tier == 'quick' else 60000):
        s = z3.Solver()
        s.set('timeout', timeout)
        lits = pm.all_str_lits()
        if len(lits) > 1:
            s.add(z3.Distinct(*lits))
        s.add(hyp)
        s.add(z3.Not(goal))
        t1 = time.time()
        r = ckit.check_with_deadline(s, timeout)
        results[name] = (str(r), time.time() - t1, s.model() if r == z3.sat else None)
        return r

    # create: id = mx + 1 (C01/C02: CreateTrial / SuggestTrials allocate max_trial_id() + 1), fresh identity
    nu = z3.Int('new_identity')
    ex2, st2, ident2 = z3.Store(ex, mx + 1, True), z3.Store(st, mx + 1, z3.Const('st_new', Str)), z3.Store(ident, mx + 1, nu)
    prove('C12.history.create.preserves_invariant', z3.And(pre, z3.Not(used[nu])),
          J(ex2, st2, ident2, inc, deliv, z3.Store(idof, nu, mx + 1), z3.Store(used, nu, True), mx + 1))
    # complete(k)
    k = z3.Int('k')
    prove('C12.history.complete.preserves_invariant', z3.And(pre, ex[k]), J(ex, z3.Store(st, k, COMPLETED), ident, inc, deliv, idof, used, mx))
    # delete(k), k not the max-id trial: max unchanged
    prove('C12.history.delete_non_max.preserves_invariant', z3.And(pre, ex[k], k != mx), J(z3.Store(ex, k, False), st, ident, inc, deliv, idof, used, mx))
    # delete(mx) when it was never delivered (mx not in inc): new max = some mx2 < mx with the same shape
    mx2 = z3.Int('mx2')
    new_max = z3.And(mx2 >= 0, mx2 < mx, z3.Or(mx2 == 0, ex[mx2]), z3.ForAll([x], z3.Implies(z3.And(ex[x], x != mx), x <= mx2)))
    prove('C12.history.delete_max_undelivered.preserves_invariant',
          z3.And(pre, ex[mx], mx >= 1, new_max, z3.ForAll([x], z3.Implies(z3.And(inc[x]), x <= mx2))),
          J(z3.Store(ex, mx, False), st, ident, inc, deliv, idof, used, mx2))
    # suggest step = the loader contract with m = mx: new = existing completed ids in [1..mx] not in inc
    newp = lambda y: z3.And(ex[y], st[y] == COMPLETED, 1 <= y, y <= mx, z3.Not(inc[y]))
    inc3, deliv3 = arr('inc3', B), arr('deliv3', B)
    step = z3.And(z3.ForAll([x], inc3[x] == z3.Or(inc[x], newp(x))),
                  z3.ForAll([u], deliv3[u] == z3.Or(deliv[u], z3.And(used[u], ex[idof[u]], ident[idof[u]] == u, newp(idof[u])))))
    prove('C12.history.suggest.preserves_invariant', z3.And(pre, step), J(ex, st, ident, inc3, deliv3, idof, used, mx))
    prove('C12.history.suggest.every_completed_trial_delivered', z3.And(pre, step), P(ex, st, ident, inc3, deliv3))
    prove('C12.history.suggest.never_twice', z3.And(pre, step),
          z3.ForAll([u], z3.Implies(z3.And(used[u], ex[idof[u]], ident[idof[u]] == u, newp(idof[u])), z3.Not(deliv[u]))))
    # initial state
    e0 = z3.K(I, z3.BoolVal(False))
    prove('C12.history.init.invariant', z3.BoolVal(True), J(e0, st, ident, e0, e0, idof, e0, z3.IntVal(0)))
    for name, (r, dt, model) in results.items():
        chk.obligation(name, 'history', 'z3', report.PROVED if r == 'unsat' else (report.VIOLATED if r == 'sat' else report.UNDECIDED), dt,
                       detail={'solver': r}, model=str(model)[:2000] if model is not None else None)
    # ---- unrestricted deletion: the delivered max-id trial is deleted.  J is not re-established (inc not subset [1..mx2]) and the
    # next create re-uses an id of inc: the invariant 'incorporated id that exists => delivered identity' breaks (finding 13).
    name = 'C12.history.exactly_once'
    s = z3.Solver()
    s.set('timeout', 10000)
    lits = pm.all_str_lits()
    if len(lits) > 1:
        s.add(z3.Distinct(*lits))
    # ground counterexample to induction over ids/identities {0..3}: state after deleting the delivered max-id trial 3, then create
    D = range(0, 5)
    g = lambda f: z3.And(*[f(z3.IntVal(i)) for i in D])
    s.add(mx == 2, g(lambda i: ex[i] == z3.Or(i == 1, i == 2)), g(lambda i: inc[i] == z3.Or(i == 1, i == 2, i == 3)),
          g(lambda i: ident[i] == i), g(lambda i: idof[i] == i), g(lambda i: used[i] == z3.And(i >= 1, i <= 3)), g(lambda i: deliv[i] == z3.And(i >= 1, i <= 3)))
    nu_v = z3.IntVal(4)
    ex_c, ident_c = z3.Store(ex, 3, True), z3.Store(ident, 3, nu_v)
    st_c = z3.Store(st, 3, COMPLETED)
    # after create(3 again) + complete(3) + suggest with m = 3: len(inc) == 3 == m -> nothing new, yet the new identity 4 is completed and undelivered
    s.add(z3.Not(z3.Implies(z3.And(ex_c[3], st_c[3] == COMPLETED), deliv[ident_c[3]])))
    cti = ckit.check_with_deadline(s, 10000)
    f13 = chk.finding_for(name)
    # bounded native search through the real service (never counted as proved): histories OUTSIDE the class of finding 13
    hs, hraw = pool.get('history_search')
    bound = ('scripted + seeded random histories (<= 8 steps: suggest 1..3, complete feasible/infeasible in any order, delete ACTIVE trials; policy rebuilt per '
             'request and kept alive) through the real VizierServicer + PythiaServicer with a recording designer; oracle from the property text')
    if hs is None:
        chk.error(name + '.native_search', 'bounded native history search did not run: %s' % hraw[-500:])
    elif hs.get('failing'):
        w = hs['failing'][0]
        chk.bounded_standin(name + '.native_search', bound, 'violated', {'histories': hs.get('histories'), 'failing': hs['failing'][:2]})
        chk.obligation(name, 'history', 'native-history-search', report.VIOLATED, time.time() - t0,
                       detail={'histories': hs.get('histories'), 'first_failing': w},
                       model='history (no completed trial is ever deleted -- outside finding 13): %s\nviolations: %s' % (json.dumps(w.get('trace')), json.dumps(w.get('violations'))),
                       replay={'driver': 'replay/c12_replay.py history_search', 'history': w.get('ops'), 'trace': w.get('trace'), 'violations': w.get('violations'),
                               'policy_kept_alive': w.get('policy_kept_alive')}, reproduced=True)
        return
    else:
        chk.bounded_standin(name + '.native_search', bound, 'held', {'histories': hs.get('histories')})
    res, raw = pool.get('history')
    det = {'counterexample_to_induction': str(cti), 'state': 'ids {1,2} exist, inc = {1,2,3} (3 = deleted max-id trial, delivered); create -> id 3 again, new identity',
           'native_history': (res or {}).get('events'), 'native_updates': (res or {}).get('updates')}
    if res is None:
        chk.error(name + '.replay', 'history replay did not run: %s' % raw[-600:])
    elif res.get('reproduced'):
        if f13 is not None:
            chk.obligation(name, 'history', 'z3+replay', report.KNOWN, time.time() - t0, detail=det, finding=f13['what'])
            all_ok = all(r == 'unsat' for r, _, _ in results.values())
            chk.obligation(name + '.residual', 'history', 'z3', report.PROVED if all_ok else report.UNDECIDED, 0.0,
                           detail='histories in which no delivered max-id trial is deleted (ids of delivered trials are never re-used): invariant inductive for '
                                  'create/complete/delete_non_max/delete_max_undelivered/suggest; every completed trial delivered exactly once')
        else:
            chk.obligation(name, 'history', 'z3+replay', report.VIOLATED, time.time() - t0, detail=det,
                           model='id reuse after deleting the delivered max-id trial: the completed new trial %s is never passed to Designer.update' % (res.get('new_trial'),),
                           replay={'driver': 'replay/c12_replay.py history', 'native_result': res}, reproduced=True)
    else:
        # the real service no longer loses the trial (ids are no longer re-used, or the loader changed): a stale finding is a NOTE.
        # What is claimed then is the residual (proved above for histories without re-use of a delivered id) + the bounded native search.
        if f13 is not None:
            chk.note('NOTE: recorded finding %s is stale (its witness history no longer reproduces); it suppresses nothing.' % name)
        all_ok = all(r == 'unsat' for r, _, _ in results.values())
        chk.obligation(name + '.residual', 'history', 'z3', report.PROVED if all_ok else report.UNDECIDED, 0.0,
                       detail='histories in which ids of delivered trials are never re-used: invariant inductive, every completed trial delivered exactly once; '
                              'the recorded id-reuse history does not reproduce on this tree (native: %s)' % json.dumps({k: res.get(k) for k in ('id_reused', 'new_trial_delivered')}))


def id_allocation(chk):
    """the history model's create step (id = max existing id + 1) read off the real service code: every trial id handed to
    TrialResource / trial_resource in CreateTrial and SuggestTrials is `datastore.max_trial_id(...) + 1`."""
    mod = ModuleInfo.get('vizier._src.service.vizier_service')
    cls = mod.classes['VizierServicer']
    for rpc in ('CreateTrial', 'SuggestTrials'):
        fn = cls.methods.get(rpc)
        name = 'C12.history.id_allocation.%s.max_plus_one' % rpc
        if fn is None:
            chk.error(name, 'VizierServicer.%s not found' % rpc)
            continue
        chk.function('vizier._src.service.vizier_service', 'VizierServicer.' + rpc, role='id allocation pattern (frame)')
        allocs = []
        for n in ast.walk(fn):
            if isinstance(n, (ast.Assign, ast.AugAssign)):
                tgts = n.targets if isinstance(n, ast.Assign) else [n.target]
                if any(isinstance(t, ast.Name) and 'trial_id' in t.id for t in tgts) or any(isinstance(t, ast.Attribute) and t.attr == 'id' for t in tgts):
                    allocs.append(n)
        def is_max_plus_one(v):
            if isinstance(v, ast.Call) and isinstance(v.func, ast.Name) and v.func.id in ('str', 'int') and len(v.args) == 1:
                v = v.args[0]
            return isinstance(v, ast.BinOp) and isinstance(v.op, ast.Add) and isinstance(v.right, ast.Constant) and v.right.value == 1 and \
                isinstance(v.left, ast.Call) and isinstance(v.left.func, ast.Attribute) and v.left.func.attr == 'max_trial_id'
        src = [ast.unparse(a) for a in allocs]
        id_from_var = [a for a in allocs if isinstance(a, ast.Assign) and isinstance(a.value, ast.Call) and getattr(a.value.func, 'id', '') == 'str']
        direct = [a for a in allocs if isinstance(a, ast.Assign) and is_max_plus_one(a.value)]
        if direct:
            chk.obligation(name, 'VizierServicer.' + rpc, 'frame', report.PROVED, 0.0, detail={'allocation': [ast.unparse(a) for a in direct]})
        else:
            chk.obligation(name, 'VizierServicer.' + rpc, 'frame', report.UNDECIDED, 0.0,
                           detail={'reason': 'no `x = self.datastore.max_trial_id(..) + 1` assignment found; the create step of the history model is not justified', 'assignments': src[:6]})


# =========================================================================================== bounded model queries + replay
def model_world(run, model, nall):
    trials = []
    for i in range(nall):
        t = run.ALL.arr[i]
        tid = model.eval(PT.id(t), model_completion=True).as_long()
        stv = model.eval(PT.status(t), model_completion=True)
        name = 'UNKNOWN'
        for s in TM.STATUSES:
            if model.eval(TM.status_lit(s), model_completion=True).eq(stv):
                name = s
        trials.append([tid, name])
    inc = [i for i, b in enumerate(run.inc_bits) if z3.is_true(model.eval(b, model_completion=True))]
    m = model.eval(run.m, model_completion=True).as_long()
    return {'trials': trials, 'inc': inc, 'm': m}


def bounded_search(kind, entries, want, tier, extra_payload=None):
    """entries: [(entry_fn(nall), post)]; replay driver `kind` of c12_replay.py evaluates clauses natively."""
    found, spurious = {}, {}
    t0 = time.time()
    attempts = {}
    for nall in (1, 2):
        for mk_entry, post in entries:
            if not (set(want) - set(found)) or time.time() - t0 > (25 if tier == 'quick' else 120):
                return found, {k: v for k, v in spurious.items() if k not in found}
            for p in E.explore(mk_entry(nall), max_paths=600, timeout_ms=1000, deadline_s=20):
                if p.kind not in ('return', 'raise'):
                    continue
                run = p.run
                obs = [(n, f) for (n, f, npc, nax, info) in run.obligations] + list(post(p))
                for name, f in obs:
                    if name not in want or name in found or attempts.get(name, 0) >= 3 or time.time() - t0 > (40 if tier == 'quick' else 120):
                        continue          # budget: at most 3 native replays per obligation, bounded wall time
                    pre = [run.subset] if hasattr(run, 'subset') else []
                    v, model, dt = ckit.discharge(run, f if not isinstance(f, bool) else z3.BoolVal(f), timeout_ms=3000, extra=pre)
                    if v != 'sat':
                        continue
                    attempts[name] = attempts.get(name, 0) + 1
                    payload = model_world(run, model, nall)
                    payload.update(extra_payload(run, model) if extra_payload else {})
                    res, raw = ckit.run_replay('c12_replay.py', [kind], payload)
                    clause = name.rsplit('.', 1)[1]
                    reproduced = None
                    if res is not None and 'clauses' in res:
                        alias = {'shortcut_sound': 'new_set', 'inc_updated': 'update_args', 'filter': 'filter', 'iff': 'iff', 'all_completed': 'update_args',
                                 'all_active': 'all_active', 'no_raise': None}
                        c = clause if clause in res['clauses'] else alias.get(clause)
                        reproduced = (res['clauses'].get(c) is False) if c else None
                    elif res is None:
                        reproduced = True if 'Traceback' in raw else None
                    rec = {'model': 'bounded instance |ALL|=%d, path %s\ninputs=%s\nnative=%s' % (nall, p.describe(), json.dumps(payload), json.dumps(res) if res else raw[-700:]),
                           'replay': {'driver': 'replay/c12_replay.py ' + kind, 'inputs': payload, 'native_result': res}, 'reproduced': reproduced}
                    if reproduced is False:
                        spurious.setdefault(name, rec)
                    else:
                        found[name] = rec
    return found, {k: v for k, v in spurious.items() if k not in found}


def loader_cross_check(chk):
    """thorough tier (DESIGN 2.8): engine on concrete inputs vs CPython running the real loader (returned ids, resulting set)."""
    batch, predicted = [], []
    for nall in (1, 2):
        name, entry, post, _ = loader_contracts(nall, 8, 4)[0]
        paths = [p for p in E.explore(entry, max_paths=400, timeout_ms=1000, deadline_s=20) if p.kind == 'return']
        for p in paths[:16]:
            run = p.run
            sol = z3.Solver()
            sol.set('timeout', 5000)
            for c_ in run.pc:
                sol.add(c_)
            lits = pm.all_str_lits()
            if len(lits) > 1:
                sol.add(z3.Distinct(*lits))
            sol.add(run.subset)
            if sol.check() != z3.sat:
                continue
            model = sol.model()
            payload = model_world(run, model, nall)
            n, get = elems(p.value)
            ids = [model.eval(PT.id(get(z3.IntVal(j))), model_completion=True).as_long() for j in range(conc(n))]
            inc_after = [i for i in range(0, 9) if z3.is_true(model.eval(loader_inc(run.ld)(z3.IntVal(i)), model_completion=True))]
            batch.append(payload)
            predicted.append((ids, inc_after))
    res, raw = ckit.run_replay('c12_replay.py', ['loader_batch'], {'batch': batch})
    nm = 'C12.loader.engine_cross_check'
    if res is None or len(res.get('results', [])) != len(batch):
        chk.error(nm, 'cross-check driver failed: %s' % raw[-500:])
        return
    bad = [(b, pr, r) for b, pr, r in zip(batch, predicted, res['results']) if r.get('returned') != pr[0] or r.get('inc_after') != pr[1]]
    if bad:
        chk.error(nm, 'the symbolic executor and CPython disagree on %d of %d concrete runs, e.g. inputs=%s engine=%s native=%s'
                  % (len(bad), len(batch), json.dumps(bad[0][0]), bad[0][1], json.dumps(bad[0][2])[:300]))
    else:
        chk.note('loader: engine result equals CPython on %d concrete runs.' % len(batch))
        chk.extra['engine_cross_check'] = {'IdDeduplicatingTrialLoader.get_newly_completed_trials': len(batch)}


def lean_check(chk, tier):
    path = os.path.join(report.VERIF, 'lean', 'C12.lean')
    smt = ('(forall x. inc0[x] => 1 <= x <= m) and card(inc0) = m  =>  (forall x. 1 <= x <= m => inc0[x])      [SMT axiom, instantiated for inc0 and m]')
    lean = 'theorem card_shortcut (s : Finset Nat) (m : Nat) (h : s ⊆ Finset.Icc 1 m) (hc : s.card = m) : s = Finset.Icc 1 m   [lean/C12.lean]'
    chk.extra['lemma_card_shortcut'] = {'smt': smt, 'lean': lean}
    if tier != 'thorough':
        chk.assume('cardinality lemma card_shortcut (a subset of [1..m] with m elements is [1..m]) -- proved in lean/C12.lean, checked with `lean` in the thorough tier only')
        return
    t0 = time.time()
    try:
        p = subprocess.run(['lean', path], capture_output=True, text=True, timeout=900, cwd=report.VERIF)
        ok = p.returncode == 0 and 'error' not in (p.stdout + p.stderr)
        chk.obligation('C12.lemma.card_shortcut', 'lean/C12.lean', 'lean', report.PROVED if ok else report.ERROR, time.time() - t0,
                       detail=(p.stdout + p.stderr)[-800:] if not ok else 'lean lean/C12.lean: no errors')
    except (OSError, subprocess.TimeoutExpired) as e:
        chk.error('C12.lemma.card_shortcut', 'lean did not run: %r' % (e,))


# =========================================================================================== main
def run_group(chk, fname, tier, proofs, bounded_kind=None, bounded_entries=None, hint_marker='.loop', extra_payload=None):
    c = ckit.Contract(chk, fname, timeout_ms=10000 if tier == 'quick' else 60000, rename=lambda n: re.sub(r'\.loop\d+\.(fetch)\.', r'.loop.\1.', n if n.startswith('C12.') else 'C12.' + n))
    for entry, post, expect in proofs:
        c.prove(entry, post, expect_paths=expect, deadline_s=60)
    opened = [n for n in c.open_names()]
    bounded, spurious = {}, {}
    if (opened or c.unsupported) and bounded_kind:
        want = [n for n in opened if hint_marker not in n] or [n for n in c.order if hint_marker not in n]
        bounded, spurious = bounded_search(bounded_kind, bounded_entries, want, tier, extra_payload)
    for n in list(c.by_name):
        if hint_marker in n:
            for i in c.by_name[n]:
                if i.verdict == 'sat':
                    i.verdict, i.model = 'unknown', 'proof hint (loop invariant) not established; property itself not refuted by this query'
    c.finalize(bounded=bounded, spurious=spurious)
    return c


def main(tier):
    chk = report.Check('C12', tier, level='proof',
                       technique='contract-based deductive verification: VCs from the real AST (symbolic execution; sets as characteristic predicates; '
                                 'GetTrials by contract), inductive history invariant with ghost identities, z3; bounded model query + native replay for refutations')
    for t in ['pyvc VC generator and its Python models (DESIGN 2, 4)', 'z3 5.1.0'] + ['pyvc/trialmodel.py: ' + t for t in TM.TRUST] + ['pyvc/mdmodel.py: ' + t for t in MD.TRUST]:
        chk.trust(t)
    for a in ('Designer.update/suggest/dump/load are arbitrary (recorded as events); Designer.dump() is represented by one arbitrary metadata entry',
              'SuggestRequest.study_config / max_trial_id / count are plain reads of the request',
              'trial ids are allocated as max_trial_id() + 1 (C01.CreateTrial.effect / C02.SuggestTrials.fresh_ids)',
              'the class invariant inc subset [1..m] is a PRECONDITION of the loader obligations; it is established by the history invariant (C12.history.*) '
              'for histories outside finding 13'):
        chk.assume(a)
    ckit.arm_deadline(chk, 420 if tier == 'quick' else 2400)
    pool = ckit.ReplayPool()
    pool.start('history', 'c12_replay.py', ['history'])
    pool.start('history_search', 'c12_replay.py', ['history_search'], {'seed': 12, 'random': 24 if tier == 'quick' else 120, 'max_len': 8})
    lean_check(chk, tier)

    # ---- loader
    for q in ('get_newly_completed_trials', 'get_active_trials', 'clear', 'dump', 'load'):
        chk.function(CACHES, 'IdDeduplicatingTrialLoader.' + q)
    lc = loader_contracts()
    run_group(chk, 'IdDeduplicatingTrialLoader', tier, [(e, p, n) for _, e, p, n in lc], 'loader',
              [((lambda nall, i=i: loader_contracts(nall, 8, 4)[i][1]), loader_contracts(1, 8, 4)[i][2]) for i in range(3)])

    if tier == 'thorough':
        loader_cross_check(chk)

    # ---- policies
    for q in ('_SerializableDesignerPolicyBase.suggest', '_SerializableDesignerPolicyBase._initialize_designer', '_SerializableDesignerPolicyBase.dump',
              '_SerializableDesignerPolicyBase.load', 'PartiallySerializableDesignerPolicy._restore_designer', 'DesignerPolicy.suggest'):
        chk.function(POLICY, q)
    run_group(chk, '_SerializableDesignerPolicyBase.suggest', tier,
              [(policy_entry('alive'), policy_post('alive'), 2), (policy_entry('restored'), policy_post('restored'), 3)], 'policy',
              [((lambda nall: policy_entry('alive', nall, 8, 4)), policy_post('alive'))],
              extra_payload=lambda run, model: {'zero_suggestions': hasattr(run, 'nsugg') and model.eval(run.nsugg, model_completion=True).as_long() == 0})
    run_group(chk, 'DesignerPolicy.suggest', tier, [(designer_policy_entry(), designer_policy_post, 1)], 'designer_policy',
              [((lambda nall: designer_policy_entry(nall)), designer_policy_post)])

    # ---- GetTrials implementations and TrialFilter
    chk.function(TRIALMOD, 'TrialFilter.__call__')
    run_group(chk, 'TrialFilter.__call__', tier, [(trial_filter_entry(cfg), trial_filter_post, 1) for cfg in ARG_CONFIGS])
    shape = InRamShape()
    chk.function(LPS, 'InRamPolicySupporter.GetTrials')
    if shape.out_name is None:
        chk.error('C12.InRamPolicySupporter.GetTrials.shape', 'no output accumulator initialised with [] found')
    else:
        install_inram_loop(shape)
        name = 'C12.InRamPolicySupporter.GetTrials'
        run_group(chk, 'InRamPolicySupporter.GetTrials', tier, [(inram_entry(shape, cfg), gt_post(name), 1) for cfg in ARG_CONFIGS], 'get_trials',
                  [((lambda nall, cfg=cfg: inram_entry(shape, cfg, nall)), gt_post(name)) for cfg in (ARG_CONFIGS[-1], ARG_CONFIGS[0])],
                  extra_payload=lambda run, model: gt_payload(run, model, 'inram'))
    chk.function(SPS, 'ServicePolicySupporter.GetTrials')
    install_service_loop()
    name = 'C12.ServicePolicySupporter.GetTrials'
    chk.trust('VizierServicer.ListTrials returns all trials of the study in creation order (C01.ListTrials.effect); GetTrial returns the stored trial or raises '
              'NotFoundError, a KeyError (DataStore contract, Appendix A); a name built as f"{study}/trials/{id}" names trial `id` of the study (DESIGN 4.3)')
    chk.assume('ServicePolicySupporter.GetTrials: the stored trials of a study are in creation order = ascending id order with distinct ids '
               '(ids are allocated max_trial_id()+1, which exceeds every existing id: C12.history.id_allocation.*)')
    run_group(chk, 'ServicePolicySupporter.GetTrials', tier, [(service_entry(cfg), gt_post(name), 1) for cfg in ARG_CONFIGS], 'get_trials',
              [((lambda nall, cfg=cfg: service_entry(cfg, nall)), gt_post(name)) for cfg in (ARG_CONFIGS[-1], ARG_CONFIGS[0])],
              extra_payload=lambda run, model: gt_payload(run, model, 'service'))

    # ---- history
    id_allocation(chk)
    history_obligations(chk, tier, pool)
    return ckit.leave(chk.finish(min_obligations=25))


def gt_payload(run, model, impl):
    kw = run.kw
    args = {'trial_ids': None, 'min_trial_id': None, 'max_trial_id': None, 'status_matches': None}
    if 'trial_ids' in kw:
        args['trial_ids'] = [i for i in range(0, 9) if z3.is_true(model.eval(kw['trial_ids'].has(z3.IntVal(i)), model_completion=True))]
    for k in ('min_trial_id', 'max_trial_id'):
        if k in kw:
            args[k] = model.eval(kw[k], model_completion=True).as_long()
    if 'status_matches' in kw:
        v = model.eval(kw['status_matches'], model_completion=True)
        for s in TM.STATUSES:
            if model.eval(TM.status_lit(s), model_completion=True).eq(v):
                args['status_matches'] = s
    out = {'impl': impl, 'args': args}
    if impl == 'service' and hasattr(run, 'PROTOS'):
        names = {v: k for k, v in pm.registry().enums['vizier.Trial.State'].values.items()}
        n = conc(run.PROTOS.n) or 0
        out['states'] = [names.get(model.eval(pm.accessor(TRIALP(), 'state')(run.PROTOS.arr[i]), model_completion=True).as_long(), 'STATE_UNSPECIFIED') for i in range(n)]
    return out
