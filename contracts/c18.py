"""C18 -- output warping keeps the ranking of trials and always yields finite labels.

Contract-based deductive verification of the REAL source of vizier/_src/algorithms/designers/gp/output_warpers.py (AST re-read
from $VERIF_REPO on every run, executed symbolically by the pyvc engine; numpy/scipy fragment = pyvc/np_model.py + pyvc/warp_model.py).

Stated assumptions (chk.assume): machine arithmetic is treated as mathematical (floats = reals + NaN/+-inf, no rounding, no
overflow); log1p/log/exp/sqrt/norm.ppf are uninterpreted real functions with the axioms of warp_model.MATH_AXIOMS; every
numpy/scipy function is an assumed contract (warp_model.CONTRACTS), each of which is *conformance-tested natively* against the
installed library by replay/c18_conformance.py on every run -- a contract the library does not satisfy is reported against the
obligations that rest on it, never trusted silently.

Proof organisation: per function and per path a *proof script* of named steps over two arbitrary row indices i, j (free constants,
hence universally quantified): lemmas are proved from the path condition + library facts ('full'), from the loop invariant at loop
exit ('tail'), or purely from earlier lemmas ('iso': quantifier-free real arithmetic); property clauses are steps flagged as claims.
Only `unsat` proves; a step that is not proved is refuted only by a failing input reproduced on the real code (replay/c18_replay.py
runs the clause's predicate on the real warper); otherwise it is undecided.
"""
import json
import os
import sys
import time
import traceback

import z3

from pyvc import engine as E, models as M, np_model as NP, warp_model as W, xreal as X, attrs_model as AM, report, source, ckit
from pyvc.engine import Obj, FuncVal, Builtin, Unsupported, PyRaise
from pyvc.np_model import NDArray
from pyvc.warp_model import QA, QE, QA2, zi, conc       # pinned copies of the small np_model helpers
from pyvc.source import ModuleInfo

OW = 'vizier._src.algorithms.designers.gp.output_warpers'
I_, J_ = z3.Int('c18!i'), z3.Int('c18!j')
ONLY = [s for s in os.environ.get('VERIF_C18_ONLY', '').split(',') if s]
VERBOSE = bool(os.environ.get('VERIF_C18_VERBOSE'))

ARITH = 'machine arithmetic treated as mathematical: floats are extended reals (XReal: finite reals, +inf, -inf, NaN), no rounding, no overflow'


SPECS = []          # Spec objects, in report order
ALL_KEYS = set()    # keys of the findings the specifications know about
LIVE = set()        # keys of the recorded findings whose witness reproduces on the current code (set by main before the proofs start)
A_, B_ = z3.Int('c18!a'), z3.Int('c18!b')
NATIVE_FN = {}      # spec name -> name of the native runner in replay/c18_replay.py (falsification of unproved clauses)


def key(k):
    ALL_KEYS.add(k)
    return k


def mod():
    return ModuleInfo.get(OW)


def method(qual):
    m = mod()
    cls, node = m.find(qual)
    return FuncVal(m, node, cls)


def swap(f):
    return z3.substitute(f, (I_, J_), (J_, I_))


def zb(c):
    return z3.BoolVal(c) if isinstance(c, bool) else c


# ------------------------------------------------------------------------------------------ proof scripts
SECOND = [False]       # thorough tier: every quantifier-free ('iso') proof step is re-checked by cvc5 from the exported SMT-LIB
SECOND_STATS = {'checked': 0, 'agree_unsat': 0, 'unknown': 0, 'sat': 0, 'errors': 0}


def second_opinion(solver):
    import subprocess
    import tempfile
    SECOND_STATS['checked'] += 1
    try:
        with tempfile.NamedTemporaryFile('w', suffix='.smt2', delete=False, dir=os.path.join(report.OUT)) as fh:
            fh.write('(set-logic ALL)\n' + solver.to_smt2())
            path = fh.name
        try:
            r = subprocess.run(['/usr/bin/cvc5', '--tlimit=8000', path], capture_output=True, text=True, timeout=30)
            ans = ((r.stdout or '').strip().splitlines() or ['timeout' if 'timeout' in (r.stderr or '') else 'error'])[0].strip()
        finally:
            os.unlink(path)
        key = {'unsat': 'agree_unsat', 'sat': 'sat'}.get(ans, 'unknown' if (ans in ('unknown', 'timeout') or 'interrupted' in ans or not ans) else 'errors')
        SECOND_STATS[key] += 1
    except Exception:  # noqa: BLE001
        SECOND_STATS['errors'] += 1


RLIMIT_PER_MS = 2500      # pyvc convention (engine.discharge): the budget of a query is z3's deterministic resource limit, nominal_ms * 2500


def solve_once(pcs, axs, extra, f, ms, seed, fresh=False):
    """one z3 query under a DETERMINISTIC budget (rlimit); the wall-clock timeout is only a safety net (>= 20x the nominal budget), so a loaded
    machine cannot change a verdict.  fresh: translate the query into a new z3 context (independent of the term numbering of this process)"""
    if fresh:
        ctx = z3.Context()
        tr = lambda t: t.translate(ctx)
        s = z3.Solver(ctx=ctx)
    else:
        ctx, tr = None, (lambda t: t)
        s = z3.Solver()
    s.set('rlimit', int(ms) * RLIMIT_PER_MS)
    s.set('timeout', max(int(ms) * 25, 120000))
    s.set('random_seed', seed)
    for c in list(pcs) + list(axs) + list(extra):
        s.add(tr(c))
    s.add(z3.Not(tr(f)))
    r = s.check()
    v = 'unsat' if r == z3.unsat else ('sat' if r == z3.sat else 'unknown')
    if not fresh and v == 'unsat':
        try:
            st = s.statistics()
            cur = st.get_key_value('rlimit count') if 'rlimit count' in st.keys() else None
            if cur is not None:
                used = cur - RL_LAST[0]
                RL_LAST[0] = cur
                ROUND_STATS['max rlimit of a proved query'] = max(ROUND_STATS.get('max rlimit of a proved query', 0), used)
        except Exception:  # noqa: BLE001
            pass
    elif not fresh:
        try:
            st = s.statistics()
            if 'rlimit count' in st.keys():
                RL_LAST[0] = st.get_key_value('rlimit count')
        except Exception:  # noqa: BLE001
            pass
    del s
    return v


RL_LAST = [0]


def portfolio(pcs, axs, extra, f, timeout_ms, effort=2):
    """z3 verdicts on these queries (quantified library facts + nonlinear real arithmetic) depend on term numbering: a few seeds with a small
    budget first, then the full budget, then ONE retry in a fresh context with three times the budget.  All budgets are rlimits (deterministic);
    `unsat` from any attempt proves the step.  effort: 2 = everything, 1 = the cheap round only, 0 = one cheap attempt"""
    last = 'unknown'
    rounds = [(min(1500, timeout_ms), (0, 1, 2), False), (timeout_ms, (0,), False), (3 * timeout_ms, (0,), True)]
    if effort == 1:
        rounds = [(min(1500, timeout_ms), (0, 1), False)]
    elif effort <= 0:
        rounds = [(min(800, timeout_ms), (0,), False)]
    if FAILED_MS[0] > FAILED_CAP_MS:
        rounds = [(min(1500, timeout_ms), (0,), False)]           # this task has already burnt a lot of budget on steps that were not decided: cheap attempts only (deterministic:
        #                               the counter adds nominal budgets of undecided attempts, never wall-clock time)
    for ri, (ms, seeds, fresh) in enumerate(rounds):
        for seed in seeds:
            last = solve_once(pcs, axs, extra, f, ms, seed, fresh)
            if last == 'unknown':
                FAILED_MS[0] += ms
            if last in ('unsat', 'sat'):
                k_ = 'first attempt' if (ri == 0 and seed == seeds[0]) else ('other seed, small budget' if ri == 0 else ('full budget' if ri == 1 else 'fresh context, 3x budget'))
                ROUND_STATS[k_] = ROUND_STATS.get(k_, 0) + 1
                return last
    ROUND_STATS['not decided'] = ROUND_STATS.get('not decided', 0) + 1
    return last


FAILED_MS, FAILED_CAP_MS = [0], 30000
ROUND_STATS = {}       # how much of the deterministic budget ladder the queries needed (margin indicator, reported in the evidence)


def instances(axioms, terms, max_vars=2):
    """ground instances of the universally quantified library facts (also under an implication / conjunction) at the given index terms:
    hints for the solver where E-matching has no trigger term (sound: instances of facts that are in the context anyway)"""
    import itertools
    out = []

    def walk(ax, guard):
        if z3.is_quantifier(ax):
            if ax.is_forall() and ax.num_vars() <= max_vars and all(ax.var_sort(i) == z3.IntSort() for i in range(ax.num_vars())):
                for combo in itertools.product(terms, repeat=ax.num_vars()):
                    body = z3.substitute_vars(ax.body(), *combo)
                    out.append(z3.Implies(z3.And(*guard), body) if guard else body)
            return
        if z3.is_implies(ax):
            walk(ax.arg(1), guard + [ax.arg(0)])
        elif z3.is_and(ax):
            for ch in ax.children():
                walk(ch, guard)
    for ax in axioms:
        walk(ax, [])
    return out


class Script:
    """the proof script of one terminated path.  strong: prove every clause as stated; weak (residual) run: clauses and lemmas tagged
    with the key of a recorded finding are proved under the additional hypothesis 'outside the finding's witness class'."""

    def __init__(self, path, fname, strong=True, budget_ms=8000, skip=(), carry=None, dead=(), pi=0, deadline=None):
        self.path, self.run, self.fname, self.strong, self.pi = path, path.run, fname, strong, pi
        self.deadline = deadline       # wall-clock time after which steps only get one cheap attempt (never a verdict other than proved/unknown)
        self.lem = dict(carry or {})   # name -> formula (proved on this path)
        self.dead = set(dead)          # untagged steps that already failed in the strong run
        self.skip = set(skip)          # finding keys whose strong form is not attempted (the library model itself refutes it)
        self.out = []                  # instance records
        self.budget_ms = budget_ms
        self.ax0 = getattr(path.run, 'c18', {}).get('ax0')

    def hyp(self, key, formula):
        """hypothesis that restricts a tagged step to the outside of finding `key`'s witness class (residual run only)"""
        return z3.BoolVal(True) if (self.strong or key not in LIVE) else formula

    # -- solver calls
    def _iso(self, f, hyps, timeout_ms):
        s = z3.Solver()
        s.set('rlimit', int(timeout_ms) * RLIMIT_PER_MS)
        s.set('timeout', max(int(timeout_ms) * 25, 120000))
        hs = list(hyps)
        for h in hs + W.ground_math(hs + [f]):
            s.add(h)
        s.add(z3.Not(f))
        r = s.check()
        if r == z3.unsat and SECOND[0]:
            second_opinion(s)
        return 'unsat' if r == z3.unsat else ('sat' if r == z3.sat else 'unknown')

    def effort(self, base=2):
        return base               # no wall-clock effect on the effort: budgets are deterministic (rlimit)

    def _ctx(self, f, extra, timeout_ms, tail=False, npc=None, nax=None, effort=2):
        run = self.run
        pcs = run.pc if npc is None else run.pc[:npc]
        axs = run.axioms if nax is None else run.axioms[:nax]
        effort = self.effort(effort)
        if tail and self.ax0 is not None:
            v = portfolio(pcs, axs[self.ax0:], extra, f, timeout_ms, effort)
            if v == 'unsat':
                return v
        return portfolio(pcs, axs, extra, f, timeout_ms, effort)

    def hyps(self, uses):
        hs = []
        for u in uses:
            if u in self.lem:
                hs.append(self.lem[u])
                hs.append(swap(self.lem[u]))
        return hs

    def step(self, name, f, mode='full', uses=(), claim=False, known=None, timeout_ms=None, subst=(), inst=()):
        """prove `f` on this path.  mode: 'full' (pc + all library facts + `uses`), 'tail' (pc + loop-exit facts, then full),
        'iso' (only `uses` and their i<->j swaps + ground instances of the math axioms; falls back to full).
        claim: a property clause (recorded as C18.<fn>.<name>); otherwise a lemma (C18.<fn>.lemma.<name>).
        known: key of the recorded finding this step depends on (its residual form is proved in the weak run)."""
        t0 = time.time()
        tmo = timeout_ms or self.budget_ms
        known = tuple(known) if isinstance(known, (tuple, list, set, frozenset)) else ((known,) if known else ())
        known = tuple(k for k in known if k in LIVE)      # a finding that is fixed / no longer reproduces restricts nothing: the clause is checked in full
        if known and self.strong:
            tmo = min(tmo, 3000)       # the strong form of a clause tagged with a finding: a short attempt (it proves quickly once the defect is fixed)
        elif known:
            tmo = tmo * 2              # the residual form gets the full attention
        if not self.strong:
            if name in self.lem:
                return True
            if not known and name in self.dead:
                return False
            self.dead.discard(name)
        if self.strong and any(k in self.skip for k in known):
            if claim:
                self.out.append({'name': name, 'verdict': 'skipped', 'dt': 0.0, 'claim': True, 'known': known, 'strong': True, 'kind': 'claim',
                                 'path': self.path.describe(), 'pi': self.pi})
            return False
        if isinstance(f, bool):
            v = 'unsat' if f else 'false'
        else:
            hs = self.hyps(uses)          # lemmas that are not available on this path (not proved / not attempted) are simply not used
            for pairs in subst:           # further instances of the lemmas (they hold for arbitrary row indices)
                hs += [z3.substitute(self.lem[u], *pairs) for u in uses if u in self.lem]
            if inst:                      # ground instances of the quantified library facts at the index terms the step is about
                hs += instances(self.run.axioms, list(inst))
            lost = [u for u in uses if u in self.dead]          # a lemma this step was written to use has FAILED on this path
            eff = 1 if (lost or (known and self.strong)) else 2
            if mode == 'iso':
                v = self._iso(f, hs, tmo)
                if v != 'unsat' and not lost:
                    v2 = self._ctx(f, hs + W.ground_math(hs + [f]), tmo, effort=eff)
                    v = v2 if v2 == 'unsat' else 'unknown'
                elif v != 'unsat':
                    v = 'unknown'
            elif mode == 'tail':
                v = self._ctx(f, hs, tmo, tail=True, effort=eff)
            else:
                v = self._ctx(f, hs, tmo, effort=eff)
            if v == 'sat':
                v = 'unknown'        # a model of a query with quantified library facts / dropped hypotheses is not a refutation
        if v == 'unsat' and not isinstance(f, bool):
            self.lem[name] = f
        elif v != 'unsat':
            self.dead.add(name)
        rec = {'name': name, 'verdict': v, 'dt': time.time() - t0, 'claim': claim, 'known': known, 'strong': self.strong,
               'kind': 'claim' if claim else 'lemma', 'path': self.path.describe(), 'pi': self.pi}
        self.out.append(rec)
        if VERBOSE:
            print('    [%s] %-34s %-8s %.2fs %s' % (self.fname, name, v, rec['dt'], '' if self.strong else '(residual)'))
            sys.stdout.flush()
        return v == 'unsat'

    def engine_obligations(self):
        """obligations emitted by the engine / the library models while executing the path (loop invariants, preconditions)"""
        for (nm, f, npc, nax, info) in self.run.obligations:
            t0 = time.time()
            if isinstance(f, bool):
                f = z3.BoolVal(f)
            v = self._ctx(f, [], self.budget_ms, tail='preserve' in nm, npc=npc, nax=nax)
            if v == 'sat':
                v = 'unknown'
            self.out.append({'name': nm, 'verdict': v, 'dt': time.time() - t0, 'claim': False, 'known': (), 'strong': True, 'kind': 'engine',
                             'path': self.path.describe(), 'pi': self.pi})
            if VERBOSE:
                print('    [%s] %-34s %-8s %.2fs (engine)' % (self.fname, nm, v, time.time() - t0))


class Spec:
    """one function under contract.  name: obligation prefix (C18.<name>.<clause>); quals: the real functions executed;
    native: runner of replay/c18_replay.py that evaluates the clauses of this spec on the real code"""

    def __init__(self, name, quals, entry, steps, skip_strong=None, loops=(), native=None, min_claims=1, models=None):
        self.name, self.quals, self.entry, self.steps, self.models = name, quals, entry, steps, dict(models or {})
        self.skip_strong = skip_strong or (lambda path: set())
        self.loops, self.native, self.min_claims = loops, native, min_claims
        SPECS.append(self)


def run_spec(spec, tier, live=(), shard=(0, 1)):
    """explore + prove; returns plain data.  live: keys of the recorded findings whose witness reproduces on the current code"""
    t0 = time.time()
    for key, ls in spec.loops:
        E.LOOPS[key] = ls
    saved = dict(E.MODELS)
    E.MODELS.update(spec.models)
    try:
        paths = E.explore(spec.entry, max_paths=400, timeout_ms=1500, deadline_s=240)
    finally:
        E.MODELS.clear()
        E.MODELS.update(saved)
    res = {'name': spec.name, 'quals': list(spec.quals), 'paths': [(p.kind, p.describe()) for p in paths], 'inst': [], 'assumed': set(), 'lib': set(),
           'inlined': set(), 'unsupported': sorted({p.value for p in paths if p.kind == 'unsupported'})}
    budget = 8000 if tier == 'quick' else 30000
    deadline = time.time() + (160 if tier == 'quick' else 900)
    SECOND[0] = tier == 'thorough'
    # vacuity guard: the assumptions of (some of) the returning paths must not be refutable, otherwise everything would be provable
    res['vacuity'] = []
    for p in ([p for p in paths if p.kind == 'return'] if shard[0] == 0 else []):
        res['vacuity'].append(portfolio(p.run.pc, p.run.axioms, [], z3.BoolVal(False), 800, effort=0))
        if res['vacuity'][-1] != 'unsat':
            break            # one returning path with consistent assumptions is enough (paths the quantifier-free path solver could not prune are fine)
    for pi, p in enumerate(paths):
        res['assumed'] |= p.run.assumed
        res['lib'] |= p.run.__dict__.get('lib_used', set())
        res['inlined'] |= p.run.inlined
        if p.kind == 'unsupported' or pi % shard[1] != shard[0]:
            continue
        sc = Script(p, spec.name, True, budget, skip=set(spec.skip_strong(p)) & set(live), pi=pi, deadline=deadline)
        sc.engine_obligations()
        if p.kind in ('return', 'raise'):
            spec.steps(sc, p)
        res['inst'] += sc.out
        weak_needed = {k for r in sc.out if r['verdict'] != 'unsat' for k in r['known']}
        if weak_needed and p.kind in ('return', 'raise'):
            sw = Script(p, spec.name, False, budget, carry=sc.lem, dead=[d for d in sc.dead], pi=pi, deadline=deadline)
            spec.steps(sw, p)
            res['inst'] += sw.out
    res['wall'] = time.time() - t0
    res['second'] = dict(SECOND_STATS)
    res['rounds'] = dict(ROUND_STATS)
    res['rounds']['max undecided nominal ms in one task'] = FAILED_MS[0]
    return res


# ------------------------------------------------------------------------------------------ common pieces of the specifications
def fresh_labels(it, name='y', lo=1):
    """an arbitrary (n, 1) float label array (any mix of finite values, NaN, +-inf)"""
    run = it.run
    n = run.fresh('n', z3.IntSort())
    run.assume(n >= lo)
    inp = W.fresh_array(run, name, (n, 1), 'float')
    run.c18 = {'inp': inp, 'n': n, 'f0': inp.fn}
    return inp


def validated(f0):
    """specification of _validate_labels on one entry: -inf -> NaN, everything else unchanged"""
    return lambda t: z3.If(X.is_ninf(f0(t, 0)), X.nan, f0(t, 0))


def rng(n, *idx):
    return z3.And(*[z3.And(t >= 0, t < n) for t in idx])


def not_modified(c):
    return c['inp'].version == 0 and c['inp'].fn is c['f0']


def shape_is(out, n):
    if not isinstance(out, NDArray) or out.rank != 2:
        return False
    return z3.And(zi(out.shape[0]) == n, zi(out.shape[1]) == 1)


def exc_name(p):
    return E.class_name(p.value.cls) if p.kind == 'raise' else None


def has_pinf(c):
    return QE(c['n'], lambda t: X.is_pinf(c['f0'](t, 0)))


def raise_steps(sc, p, allowed_when=None, known=None):
    """clause `raises_only_documented`: the only exception is the documented ValueError for a +inf label (or, for `allowed_when`,
    another documented ValueError); anything else must be unreachable.  known = (finding key, class formula fn, exception names)"""
    c = p.run.c18
    if exc_name(p) == 'ValueError' and c.get('ctor_pending'):
        # ValueError raised by the component's own constructor validation (the real attrs validators / __attrs_post_init__ were executed)
        return sc.step('raises_only_documented', True, claim=True)
    if exc_name(p) == 'ValueError':
        msg = str((p.value.attrs.get('args') or ('',))[0])
        if 'Infinity' in msg:
            return sc.step('raises_only_documented', has_pinf(c), claim=True)
        if allowed_when is not None:
            f = allowed_when(msg)
            if f is not None:
                return sc.step('raises_only_documented', f, claim=True)
    if known is not None and exc_name(p) in known[2]:
        f = z3.BoolVal(False) if sc.strong else known[1](p)
        return sc.step('raises_only_documented', f, claim=True, known=known[0])
    return sc.step('raises_only_documented', z3.BoolVal(False), claim=True)


def make(it, clsname, **attrs):
    return AM.make_instance(it, mod().classes[clsname], **attrs)


def call(it, obj, meth, *args):
    return it.call(it.getattr(obj, meth), list(args), {})


# =========================================================================================== _validate_labels
def validate_entry(it):
    inp = fresh_labels(it)
    return it.call(FuncVal(mod(), mod().funcs['_validate_labels']), [inp], {})


def validate_steps(sc, p):
    c = p.run.c18
    n, f0 = c['n'], c['f0']
    if p.kind == 'raise':
        return raise_steps(sc, p)
    out = p.value
    sc.step('returns_fresh_copy', isinstance(out, NDArray) and out is not c['inp'] and not_modified(c), claim=True)
    sc.step('shape_preserved', shape_is(out, n), claim=True)
    sc.step('neginf_to_nan_rest_unchanged', z3.Implies(rng(n, I_), out.at(I_, 0) == validated(f0)(I_)), claim=True)
    sc.step('posinf_rejected', z3.Implies(rng(n, I_), z3.Not(X.is_pinf(f0(I_, 0)))), claim=True)


def validate_badshape_entry(it):
    run = it.run
    n = run.fresh('n', z3.IntSort())
    run.assume(n >= 0)
    inp = W.fresh_array(run, 'y', (n,), 'float')
    run.c18 = {'inp': inp, 'n': n, 'f0': inp.fn}
    return it.call(FuncVal(mod(), mod().funcs['_validate_labels']), [inp], {})


def validate_badshape_steps(sc, p):
    sc.step('rank1_rejected', p.kind == 'raise' and exc_name(p) == 'ValueError' and not_modified(p.run.c18), claim=True)


# =========================================================================================== component contracts (clauses shared with the pipeline composition)
def C_infeasible(y, o, n):
    fin2 = z3.And(rng(n, I_, J_), X.is_fin(y(I_)), X.is_fin(y(J_)))
    return {
        'all_outputs_finite': z3.Implies(rng(n, I_), X.is_fin(o(I_))),
        'infeasible_strictly_below_feasible': z3.Implies(z3.And(rng(n, I_, J_), X.is_nan(y(I_)), X.is_fin(y(J_))), X.lt(o(I_), o(J_))),
        'order_and_ties_of_feasible_preserved': z3.Implies(fin2, z3.And(X.lt(y(I_), y(J_)) == X.lt(o(I_), o(J_)), (y(I_) == y(J_)) == (o(I_) == o(J_)))),
        'infeasible_entries_tie': z3.Implies(z3.And(rng(n, I_, J_), X.is_nan(y(I_)), X.is_nan(y(J_))), o(I_) == o(J_)),
    }


def C_log(y, o, n, g_off, g_good):
    fin2 = z3.And(rng(n, I_, J_), X.is_fin(y(I_)), X.is_fin(y(J_)))
    return {
        'nan_untouched': z3.Implies(z3.And(rng(n, I_), X.is_nan(y(I_))), X.is_nan(o(I_))),
        'strictly_increasing_on_finite': z3.Implies(z3.And(fin2, g_off, X.lt(y(I_), y(J_))), X.lt(o(I_), o(J_))),
        'ties_preserved': z3.Implies(z3.And(fin2, y(I_) == y(J_)), o(I_) == o(J_)),
        'finite_to_finite': z3.Implies(z3.And(rng(n, I_), g_good, X.is_fin(y(I_))), X.is_fin(o(I_))),
        'output_finite_or_nan': z3.Implies(rng(n, I_), z3.Or(X.is_fin(o(I_)), X.is_nan(o(I_)))),
    }


def C_halfrank(y, o, n, G):
    fin2 = z3.And(rng(n, I_, J_), X.is_fin(y(I_)), X.is_fin(y(J_)))
    return {
        'nan_untouched': z3.Implies(z3.And(rng(n, I_), X.is_nan(y(I_))), X.is_nan(o(I_))),
        'finite_to_finite': z3.Implies(z3.And(rng(n, I_), G, X.is_fin(y(I_))), X.is_fin(o(I_))),
        'order_of_finite_preserved': z3.Implies(z3.And(rng(n, I_, J_), G, fin2, X.lt(y(I_), y(J_))), X.lt(o(I_), o(J_))),
        'ties_preserved': z3.Implies(z3.And(fin2, y(I_) == y(J_)), o(I_) == o(J_)),
        'output_finite_or_nan': z3.Implies(rng(n, I_), z3.Or(X.is_fin(o(I_)), X.is_nan(o(I_)))),
    }


def C_outliers(y, o, n, g_z):
    return {
        'each_entry_kept_or_marked_infeasible': z3.Implies(rng(n, I_), z3.Or(o(I_) == y(I_), X.is_nan(o(I_)))),
        'only_labels_below_kept_ones_are_dropped': z3.Implies(z3.And(rng(n, I_, J_), X.is_fin(y(I_)), X.is_nan(o(I_)), X.is_fin(o(J_))), X.lt(y(I_), y(J_))),
        'some_label_is_kept': z3.Implies(z3.And(g_z, QE(n, lambda t: X.is_fin(y(t)))), QE(n, lambda t: X.is_fin(o(t)))),
    }


def C_ttg(y, o, n, allfin, G):
    two = z3.And(rng(n, A_, B_), y(A_) != y(B_))
    return {
        'order_preserved_on_finite_labels': z3.Implies(z3.And(rng(n, I_, J_), allfin, G, X.lt(y(I_), y(J_))), z3.And(X.is_fin(o(I_)), X.is_fin(o(J_)), X.lt(o(I_), o(J_)))),
        'ties_preserved': z3.Implies(z3.And(rng(n, I_, J_), allfin, G, y(I_) == y(J_)), o(I_) == o(J_)),
        'finite_output_for_nonconstant_finite_labels': z3.Implies(z3.And(rng(n, I_), allfin, two), X.is_fin(o(I_))),
    }


# =========================================================================================== InfeasibleWarperComponent
def infeasible_entry(roundtrip):
    def entry(it):
        inp = fresh_labels(it)
        obj = make(it, 'InfeasibleWarperComponent', _shift=None)
        it.run.c18['obj'] = obj
        w = call(it, obj, 'warp', inp)
        if not roundtrip:
            return w
        it.run.c18['warped'] = w
        it.run.c18['w_fn'] = w.fn
        return call(it, obj, 'unwarp', w)
    return entry


def infeasible_steps(sc, p):
    c = p.run.c18
    n, f0 = c['n'], c['f0']
    if p.kind == 'raise':
        return raise_steps(sc, p)
    out, y = p.value, validated(f0)
    o = lambda t: out.at(t, 0)
    sc.step('input_not_modified', isinstance(out, NDArray) and out is not c['inp'] and not_modified(c), claim=True)
    sc.step('shape_preserved', shape_is(out, n), claim=True)
    C = C_infeasible(y, o, n)
    sc.step('all_outputs_finite', C['all_outputs_finite'], claim=True)
    sc.step('infeasible_strictly_below_feasible', C['infeasible_strictly_below_feasible'], claim=True)
    sc.step('feasible_shifted_by_common_constant',
            z3.Implies(z3.And(rng(n, I_, J_), X.is_fin(y(I_)), X.is_fin(y(J_))), X.r(o(I_)) - X.r(y(I_)) == X.r(o(J_)) - X.r(y(J_))), claim=True)
    sc.step('order_and_ties_of_feasible_preserved', C['order_and_ties_of_feasible_preserved'],
            mode='iso', uses=['feasible_shifted_by_common_constant', 'all_outputs_finite'], claim=True)
    sc.step('infeasible_entries_tie', C['infeasible_entries_tie'], claim=True)


def infeasible_roundtrip_steps(sc, p):
    c = p.run.c18
    n, f0 = c['n'], c['f0']
    if p.kind == 'raise':
        return raise_steps(sc, p)
    out, y = p.value, validated(f0)
    sc.step('shape_preserved', shape_is(out, n), claim=True)
    sc.step('unwarp_does_not_modify_its_input', c['warped'].fn is c['w_fn'] and out is not c['warped'], claim=True)
    sc.step('unwarp_inverts_warp_on_feasible', z3.Implies(z3.And(rng(n, I_), X.is_fin(y(I_))), out.at(I_, 0) == y(I_)), claim=True)


def infeasible_unwarp_first_entry(it):
    inp = fresh_labels(it)
    obj = make(it, 'InfeasibleWarperComponent', _shift=None)
    return call(it, obj, 'unwarp', inp)


def unwarp_first_steps(sc, p):
    sc.step('unwarp_before_warp_rejected', p.kind == 'raise' and exc_name(p) == 'ValueError', claim=True)


# =========================================================================================== LogWarperComponent
K_LOG_CONST = key('log_constant_labels')
K_LOG_OFFSET1 = key('log_offset_one')


def log_entry(roundtrip):
    def entry(it):
        run = it.run
        inp = fresh_labels(it)
        off = run.fresh('offset', z3.RealSort())
        for a in W.math_axioms():
            run.axiom(a)
        run.c18.update(off=off, ctor_pending=True)
        # the REAL attrs constructor with an arbitrary real offset: its validator decides which offsets exist (rejected ones end the path)
        obj = it.call(mod().classes['LogWarperComponent'], [], {'offset': X.fin(off)})
        run.c18.update(obj=obj, ctor_pending=False)
        w = call(it, obj, 'warp', inp)
        if not roundtrip:
            return w
        run.c18['warped'], run.c18['w_fn'] = w, w.fn
        return call(it, obj, 'unwarp', w)
    return entry


def log_good(sc, c, y):
    """outside the witness classes of the two LogWarper findings: offset != 1 and at least two distinct finite labels"""
    mn, mx = X.lift(c['obj'].attrs['_labels_min']), X.lift(c['obj'].attrs['_labels_max'])
    return z3.And(sc.hyp(K_LOG_OFFSET1, c['off'] != 1), sc.hyp(K_LOG_CONST, X.lt(mn, mx)))


def log_steps(sc, p):
    c = p.run.c18
    n, f0 = c['n'], c['f0']
    if p.kind == 'raise':
        return raise_steps(sc, p)
    out, y = p.value, validated(f0)
    o = lambda t: out.at(t, 0)
    mn, mx = X.lift(c['obj'].attrs['_labels_min']), X.lift(c['obj'].attrs['_labels_max'])
    fin2 = z3.And(rng(n, I_, J_), X.is_fin(y(I_)), X.is_fin(y(J_)))
    sc.step('input_not_modified', isinstance(out, NDArray) and out is not c['inp'] and not_modified(c), claim=True)
    sc.step('shape_preserved', shape_is(out, n), claim=True)
    g_off = sc.hyp(K_LOG_OFFSET1, c['off'] != 1)
    C = C_log(y, o, n, g_off, log_good(sc, c, y))
    sc.step('nan_untouched', C['nan_untouched'], claim=True)
    sc.step('min_max_recorded', z3.Implies(z3.And(rng(n, I_), X.is_fin(y(I_))), z3.And(X.le(mn, y(I_)), X.le(y(I_), mx))))
    # strictly increasing needs offset != 1 only (two distinct finite labels imply max > min); finiteness needs both
    sc.step('strictly_increasing_on_finite', C['strictly_increasing_on_finite'], claim=True, known=K_LOG_OFFSET1)
    sc.step('ties_preserved', C['ties_preserved'], claim=True)
    sc.step('finite_to_finite', C['finite_to_finite'], claim=True, known=(K_LOG_CONST, K_LOG_OFFSET1))
    sc.step('output_finite_or_nan', C['output_finite_or_nan'], claim=True)
    two = z3.And(rng(n, A_, B_), X.is_fin(y(A_)), X.is_fin(y(B_)), y(A_) != y(B_))
    C2 = C_log(y, o, n, g_off, z3.And(g_off, two))
    sc.step('finite_to_finite_given_two_distinct_labels', C2['finite_to_finite'], claim=True, known=K_LOG_OFFSET1, uses=['min_max_recorded'])


def log_skip(p):
    return {K_LOG_CONST, K_LOG_OFFSET1}


def log_roundtrip_steps(sc, p):
    c = p.run.c18
    n, f0 = c['n'], c['f0']
    if p.kind == 'raise':
        return raise_steps(sc, p)
    out, y = p.value, validated(f0)
    sc.step('shape_preserved', shape_is(out, n), claim=True)
    sc.step('unwarp_does_not_modify_its_input', c['warped'].fn is c['w_fn'] and out is not c['warped'], claim=True)
    sc.step('unwarp_inverts_warp_on_finite', z3.Implies(z3.And(rng(n, I_), log_good(sc, c, y), X.is_fin(y(I_))), out.at(I_, 0) == y(I_)),
            claim=True, known=(K_LOG_CONST, K_LOG_OFFSET1))


Spec('_validate_labels', ['_validate_labels'], validate_entry, validate_steps, native='validate')
Spec('_validate_labels[rank1]', ['_validate_labels'], validate_badshape_entry, validate_badshape_steps, native='validate_rank1')
Spec('InfeasibleWarperComponent.warp', ['InfeasibleWarperComponent.warp', '_validate_labels'], infeasible_entry(False), infeasible_steps, native='infeasible')
Spec('InfeasibleWarperComponent.unwarp', ['InfeasibleWarperComponent.unwarp', 'InfeasibleWarperComponent.warp'], infeasible_entry(True),
     infeasible_roundtrip_steps, native='infeasible_roundtrip')
Spec('InfeasibleWarperComponent.unwarp[first]', ['InfeasibleWarperComponent.unwarp'], infeasible_unwarp_first_entry, unwarp_first_steps, native='infeasible_unwarp_first')
Spec('LogWarperComponent.warp', ['LogWarperComponent.warp', '_validate_labels'], log_entry(False), log_steps, skip_strong=log_skip, native='log')
Spec('LogWarperComponent.unwarp', ['LogWarperComponent.unwarp', 'LogWarperComponent.warp'], log_entry(True), log_roundtrip_steps, skip_strong=log_skip,
     native='log_roundtrip')


# =========================================================================================== HalfRankComponent.warp
K_HR_NAN = key('halfrank_nan_rank')
K_HR_ALLNAN = key('halfrank_all_nan_indexerror')
HR_LOOP = (OW, 'HalfRankComponent.warp', 1)


def _mentions(run, t, prefix, depth=3):
    """does the (named) float scalar `t` depend on a constant whose name starts with `prefix`?"""
    defs = run.__dict__.get('named_defs', {})
    seen, todo = set(), [(t, 0)]
    while todo:
        x, d = todo.pop()
        if x.get_id() in seen:
            continue
        seen.add(x.get_id())
        if z3.is_const(x) and x.decl().kind() == z3.Z3_OP_UNINTERPRETED:
            if x.decl().name().startswith(prefix):
                return True
            if x.get_id() in defs and d < depth:
                todo.append((defs[x.get_id()], d + 1))
        todo.extend((ch, d) for ch in x.children())
    return False


def halfrank_roles(it, env):
    """the values the below-median loop of HalfRankComponent works with, found by what they ARE (never by their names, and wherever the loop
    lives: in `warp` itself or in a helper method it calls -- the helper's parameters are then the locals)"""
    run = it.run
    ranks = [v for v in env.values() if isinstance(v, NDArray) and hasattr(v, 'ranks_of')]
    if len(ranks) != 1:
        raise Unsupported('loop contract of HalfRankComponent.warp: expected one rankdata(...) result among the locals of the loop')
    ranks = ranks[0]
    labels = [k for k, v in env.items() if v is ranks.ranks_of[0]]
    if len(labels) != 1:
        raise Unsupported('loop contract of HalfRankComponent.warp: the array passed to rankdata is not a (single) local of the loop')
    uniq = [u for u in run.__dict__.get('np_uniques', []) if u.unique_of[0] is ranks.ranks_of[0]]
    if len(uniq) != 1:
        raise Unsupported('loop contract of HalfRankComponent.warp: expected one np.unique(...) of the finite labels before the loop')
    uniq = uniq[0]
    scal = {}
    for k, v in env.items():
        if isinstance(v, float):
            v = X.lit(v)
        if z3.is_expr(v) and v.sort() == X.XReal:
            scal[k] = v
    med = [k for k, v in scal.items() if z3.is_const(v) and v.decl().name().startswith('nanmedian!')]
    if len(med) != 1:
        raise Unsupported('loop contract of HalfRankComponent.warp: expected exactly one np.nanmedian(...) result among the locals of the loop')
    den = [k for k, v in scal.items() if k != med[0] and _mentions(run, v, 'ssplit!')]
    std = [k for k, v in scal.items() if k != med[0] and k not in den]
    if len(den) != 1 or len(std) != 1:
        raise Unsupported('loop contract of HalfRankComponent.warp: cannot identify the rank denominator / the estimated std among the float locals %s'
                          % sorted(scal))
    ss = [s_ for (a_, v_, s_, side_) in run.__dict__.get('np_searchsorted', []) if a_ is uniq]
    return {'labels': labels[0], 'ranks': ranks, 'u': uniq, 'median': scal[med[0]], 'den': scal[den[0]], 'std': scal[std[0]], 's': ss[0] if len(ss) == 1 else None}


def halfrank_value(ranks, median, den, std):
    """what the warper writes for a finite label below the median: ppf(0.5 * (rank - 0.5) / denominator) * std + median"""
    def q(j):
        return W.xdiv(X.mul(X.lit(0.5), X.sub(ranks.at(j), X.lit(0.5))), den)
    return q, (lambda j: X.add(X.mul(W.xppf(q(j)), std), median))


def halfrank_inv(it, fr, ctx):
    R = halfrank_roles(it, ctx.entry_env)
    cur, ent = fr.env[R['labels']], ctx.entry_vals[R['labels']]
    q, val = halfrank_value(R['ranks'], R['median'], R['den'], R['std'])
    spec = lambda j: z3.If(z3.And(X.is_fin(ent.at(j)), X.lt(ent.at(j), R['median'])), val(j), ent.at(j))
    R.update(ent=ent, q=q, val=val)
    it.run.c18['loop'] = R
    if ctx.phase == 'head':
        it.run.c18['ax0'] = len(it.run.axioms)
    i = ctx.i
    return [('pointwise_map', QA(cur.shape[0], lambda j: cur.at(j) == z3.If(j < i, spec(j), ent.at(j))))]


def halfrank_loop_role(it, fr, node, itobj):
    """the loop of HalfRankComponent that walks the labels together with their dense ranks (any of the forms enumerate(zip(..)), range(len(..)),
    enumerate(..)), in `warp` or in a private method called from it"""
    f = fr
    while f is not None and f.func is None:
        f = f.parent
    if f is None or not f.func.qualname.startswith('HalfRankComponent.'):
        return None
    if any(isinstance(v, NDArray) and hasattr(v, 'ranks_of') for v in fr.env.values()):
        return E.LoopSpec(halfrank_inv)
    return None


def hr_unwarp_loop_role(it, fr, node, itobj):
    """the loop of HalfRankComponent that applies the saved unwarper to every label (no rank array among its locals)"""
    f = fr
    while f is not None and f.func is None:
        f = f.parent
    if f is None or not f.func.qualname.startswith('HalfRankComponent.'):
        return None
    if any(isinstance(v, NDArray) and hasattr(v, 'ranks_of') for v in fr.env.values()) or it.run.__dict__.get('np_ranks'):
        return None
    return E.LoopSpec(hr_unwarp_inv)


W.ROLE_LOOPS[:] = [halfrank_loop_role, hr_unwarp_loop_role]


def halfrank_entry(it):
    run = it.run
    inp = fresh_labels(it)
    obj = make(it, 'HalfRankComponent', _unwarper=None)
    run.c18['obj'] = obj
    for a in W.math_axioms():
        run.axiom(a)
    return call(it, obj, 'warp', inp)


def halfrank_skip(p):
    L = p.run.c18.get('loop')
    if L is not None and L['ranks'].ranks_of[2] == 'propagate':
        return {K_HR_NAN, K_HR_ALLNAN}
    return {K_HR_ALLNAN}


def no_finite(c):
    return QA(c['n'], lambda t: z3.Not(X.is_fin(c['f0'](t, 0))))


def halfrank_steps(sc, p):
    c = p.run.c18
    n, f0 = c['n'], c['f0']
    y = validated(f0)
    if p.kind == 'raise':
        return raise_steps(sc, p, known=(K_HR_ALLNAN, lambda p_: no_finite(c), ('IndexError',)))
    out = p.value
    o = lambda t: out.at(t, 0)
    sc.step('input_not_modified', isinstance(out, NDArray) and out is not c['inp'] and not_modified(c), claim=True)
    sc.step('shape_preserved', shape_is(out, n), claim=True)
    sc.step('nan_untouched', z3.Implies(z3.And(rng(n, I_), X.is_nan(y(I_))), X.is_nan(o(I_))), claim=True, mode='tail')
    L = c.get('loop')
    nonan = QA(n, lambda t: X.is_fin(f0(t, 0)))
    G = sc.hyp(K_HR_NAN, nonan)
    fin2 = z3.And(rng(n, I_, J_), X.is_fin(y(I_)), X.is_fin(y(J_)))
    C = C_halfrank(y, o, n, G)
    if L is None:
        # size-1 shortcut (or no loop): the validated copy is returned as it is
        sc.step('identity_without_loop', z3.Implies(rng(n, I_), o(I_) == y(I_)))
        sc.step('top_half_unchanged', z3.Implies(z3.And(rng(n, I_), X.is_fin(y(I_))), o(I_) == y(I_)), claim=True, mode='iso', uses=['identity_without_loop'])
        sc.step('below_median_mapped_strictly_below', True, claim=True)
        for nm in ('finite_to_finite', 'order_of_finite_preserved', 'ties_preserved', 'output_finite_or_nan'):
            sc.step(nm, C[nm], claim=True, uses=['identity_without_loop'])
        return
    med, den, std, ranks, u, s = L['median'], L['den'], L['std'], L['ranks'], L['u'], L['s']
    root, vs, uf, wit = u.unique_of
    cnt, K = vs.cnt, vs.K
    q, val = L['q'], L['val']
    below = lambda t: z3.And(X.is_fin(y(t)), X.lt(y(t), med))
    c_ = lambda t: cnt(X.r(y(t)))
    H1, H2 = z3.And(rng(n, I_), G), z3.And(rng(n, I_, J_), G)
    # -- what the loop did (from the loop invariant at loop exit)
    sc.step('loop_exit_unchanged', z3.Implies(z3.And(rng(n, I_), z3.Not(below(I_))), o(I_) == y(I_)), mode='tail')
    sc.step('loop_exit_value', z3.Implies(z3.And(rng(n, I_), below(I_)), o(I_) == val(I_)), mode='tail')
    sc.step('top_half_unchanged', z3.Implies(z3.And(rng(n, I_), X.is_fin(y(I_)), X.le(med, y(I_))), o(I_) == y(I_)), claim=True, mode='iso', uses=['loop_exit_unchanged'])
    # -- library facts at the two indices
    sc.step('median_finite', z3.Implies(z3.And(rng(n, I_), X.is_fin(y(I_))), X.is_fin(med)))
    sc.step('count_range', z3.Implies(z3.And(rng(n, I_), X.is_fin(y(I_))), z3.And(c_(I_) >= 0, c_(I_) < K)))
    sc.step('count_monotone', z3.Implies(z3.And(fin2, X.lt(y(I_), y(J_))), c_(I_) < c_(J_)))
    sc.step('count_equal', z3.Implies(z3.And(fin2, y(I_) == y(J_)), c_(I_) == c_(J_)), mode='iso')
    sc.step('rank_value', z3.Implies(z3.And(H1, X.is_fin(y(I_))), ranks.at(I_) == X.fin(z3.ToReal(c_(I_) + 1))), known=K_HR_NAN)
    sc.step('rank_equal', z3.Implies(z3.And(fin2, y(I_) == y(J_)), ranks.at(I_) == ranks.at(J_)), uses=['count_equal'])
    if s is not None:
        sc.step('rank_at_most_median_index', z3.Implies(z3.And(rng(n, I_), below(I_)), c_(I_) + 1 <= s))
        sc.step('denominator_value', z3.Implies(rng(n, I_), z3.And(X.is_fin(den), X.r(den) >= z3.ToReal(s), X.r(den) <= z3.ToReal(s) + z3.Q(1, 2))))
    sc.step('std_positive', z3.Implies(z3.And(rng(n, I_), below(I_)), z3.And(X.is_fin(std), X.r(std) > 0)))
    # -- arithmetic of the rank quantile (quantifier-free, from the lemmas above)
    base = ['median_finite', 'count_range', 'count_monotone', 'count_equal', 'rank_value', 'rank_at_most_median_index', 'denominator_value', 'std_positive']
    sc.step('quantile_in_lower_half', z3.Implies(z3.And(H1, below(I_)), z3.And(X.is_fin(q(I_)), X.r(q(I_)) > 0, X.r(q(I_)) < z3.Q(1, 2))),
            mode='iso', uses=base, known=K_HR_NAN)
    sc.step('quantile_monotone', z3.Implies(z3.And(H2, below(I_), below(J_), X.lt(y(I_), y(J_))), X.r(q(I_)) < X.r(q(J_))), mode='iso',
            uses=base + ['quantile_in_lower_half'], known=K_HR_NAN)
    sc.step('quantile_equal', z3.Implies(z3.And(H2, below(I_), below(J_), y(I_) == y(J_)), q(I_) == q(J_)), mode='iso', uses=base, known=K_HR_NAN)
    arith = base + ['quantile_in_lower_half', 'quantile_monotone', 'quantile_equal', 'loop_exit_unchanged', 'loop_exit_value']
    # -- the clauses
    sc.step('below_median_mapped_strictly_below', z3.Implies(z3.And(H1, below(I_)), z3.And(X.is_fin(o(I_)), X.lt(o(I_), med))), claim=True, mode='iso',
            uses=arith, known=K_HR_NAN)
    sc.step('finite_to_finite', C['finite_to_finite'], claim=True, mode='iso', uses=arith + ['below_median_mapped_strictly_below'], known=K_HR_NAN)
    sc.step('order_below_median', z3.Implies(z3.And(H2, below(I_), below(J_), X.lt(y(I_), y(J_))), X.lt(o(I_), o(J_))), mode='iso', uses=arith, known=K_HR_NAN)
    sc.step('order_of_finite_preserved', C['order_of_finite_preserved'], claim=True, mode='iso',
            uses=arith + ['below_median_mapped_strictly_below', 'order_below_median'], known=K_HR_NAN)
    sc.step('ties_preserved', C['ties_preserved'], claim=True, mode='iso', uses=['loop_exit_unchanged', 'loop_exit_value', 'count_equal', 'rank_equal'])
    # a written value is ppf(..) * std + median: never +-inf (NaN ranks give NaN)
    sc.step('rank_nan_or_dense', z3.Implies(z3.And(rng(n, I_), X.is_fin(y(I_))), z3.Or(X.is_nan(ranks.at(I_)), ranks.at(I_) == X.fin(z3.ToReal(c_(I_) + 1)))))
    sc.step('quantile_never_zero_or_one', z3.Implies(z3.And(rng(n, I_), below(I_)), z3.Or(X.is_nan(q(I_)), z3.And(X.is_fin(q(I_)), X.r(q(I_)) > 0, X.r(q(I_)) < z3.Q(1, 2)))),
            mode='iso', uses=['rank_nan_or_dense', 'rank_at_most_median_index', 'denominator_value', 'count_range', 'median_finite'])
    sc.step('output_finite_or_nan', C['output_finite_or_nan'], claim=True, mode='iso',
            uses=['quantile_never_zero_or_one', 'loop_exit_unchanged', 'loop_exit_value', 'std_positive', 'median_finite'])
    # -- the state saved for unwarp
    uw = c['obj'].attrs.get('_unwarper')
    ok = isinstance(uw, Obj) and all(isinstance(uw.attrs.get(k), NDArray) for k in ('_original_labels', '_warped_labels'))
    sc.step('unwarper_saved', bool(ok), claim=True)
    if ok:
        ol, wl = uw.attrs['_original_labels'], uw.attrs['_warped_labels']
        kk = z3.And(I_ >= 0, I_ < J_, J_ < K)
        sc.step('unwarper_table_sizes', z3.And(zi(ol.shape[0]) == K, zi(wl.shape[0]) == K), claim=True)
        sc.step('unwarper_originals_strictly_ascending', z3.Implies(kk, z3.And(X.is_fin(ol.at(I_)), X.is_fin(ol.at(J_)), X.lt(ol.at(I_), ol.at(J_)))), claim=True)
        B = getattr(wl, 'gather_of', None)
        pos = None
        if B is not None and getattr(B[0], 'mask_read', None) is not None:
            hit = p.run.__dict__.get('np_masks', {}).get(id(B[0].mask_read[1].fn))
            if hit is not None:
                cntm, sel, rnk = hit[1]
                pos = lambda t: sel(B[1].at(t))
        om = X.lift(uw.attrs.get('_original_label_median'))
        if pos is not None:
            sc.step('largest_label_unchanged', z3.Implies(K >= 1, z3.And(X.is_fin(med), X.le(med, ol.at(K - 1)), wl.at(K - 1) == ol.at(K - 1))))
            sc.step('unwarper_saved_median_at_most_largest_warped', z3.Implies(K >= 1, X.le(om, wl.at(K - 1))), claim=True, uses=['largest_label_unchanged'])
        if pos is not None:
            tk = z3.And(I_ >= 0, I_ < K)
            sc.step('unwarper_table_pairs_observed_label_with_its_warped_value',
                    z3.Implies(tk, z3.And(pos(I_) >= 0, pos(I_) < n, y(pos(I_)) == ol.at(I_), o(pos(I_)) == wl.at(I_))), claim=True)
        else:
            sc.step('unwarper_table_pairs_observed_label_with_its_warped_value', False, claim=True)
        if pos is not None:
            # the saved median is the threshold that warp used (known finding: it is the median of the DISTINCT values instead)
            same_med = sc.hyp(K_UNW_MEDIAN, ol.at(K / 2) == med)
            tk_ = z3.And(I_ >= 0, I_ < K)
            sc.step('unwarper_tables_consistent_with_saved_median',
                    z3.Implies(z3.And(tk_, G, same_med), z3.And(z3.Implies(X.le(om, ol.at(I_)), wl.at(I_) == ol.at(I_)),
                                                                z3.Implies(X.lt(ol.at(I_), om), X.lt(wl.at(I_), om)))), claim=True, known=(K_UNW_MEDIAN, K_HR_NAN),
                    uses=['unwarper_table_pairs_observed_label_with_its_warped_value', 'top_half_unchanged', 'below_median_mapped_strictly_below', 'median_finite'],
                    subst=[[(I_, pos(I_))]])


Spec('HalfRankComponent.warp', ['HalfRankComponent.warp', 'HalfRankComponent._estimate_std_of_good_half', '_validate_labels'], halfrank_entry, halfrank_steps,
     skip_strong=halfrank_skip, native='halfrank')


# =========================================================================================== HalfRankComponent._estimate_std_of_good_half
def goodstd_entry(it):
    run = it.run
    K = run.fresh('K', z3.IntSort())
    run.assume(K >= 1)
    u = W.fresh_array(run, 'u', (K,), 'float')
    thr = run.fresh('thr', z3.RealSort())
    a, b = run.fresh('a', z3.IntSort()), run.fresh('b', z3.IntSort())
    f = u.fn
    W.fact(run, QA(K, lambda t: X.is_fin(f(t))))
    W.fact(run, QA2(K, lambda t1, t2: X.r(f(t1)) < X.r(f(t2))))
    run.assume(z3.And(a >= 0, a < K, X.r(f(a)) >= thr))            # some label is >= the threshold (the threshold is the median)
    run.c18 = {'u': u, 'thr': thr, 'K': K, 'b': b, 'u_fn': u.fn}
    for ax in W.math_axioms():
        run.axiom(ax)
    obj = make(it, 'HalfRankComponent', _unwarper=None)
    return call(it, obj, '_estimate_std_of_good_half', u, X.fin(thr))


def goodstd_steps(sc, p):
    c = p.run.c18
    if p.kind == 'raise':
        return sc.step('no_exception', z3.BoolVal(False), claim=True)
    r = X.lift(p.value)
    f, b, K, thr = c['u_fn'], c['b'], c['K'], c['thr']
    sc.step('argument_not_modified', c['u'].fn is c['u_fn'], claim=True)
    sc.step('finite_and_nonnegative', z3.And(X.is_fin(r), X.r(r) >= 0), claim=True)
    sc.step('positive_when_some_label_differs_from_threshold', z3.Implies(z3.And(b >= 0, b < K, X.r(f(b)) != thr), z3.And(X.is_fin(r), X.r(r) > 0)), claim=True)


Spec('HalfRankComponent._estimate_std_of_good_half', ['HalfRankComponent._estimate_std_of_good_half'], goodstd_entry, goodstd_steps, native='goodstd')


# =========================================================================================== _HalfRankUnwarper.unwarp
K_UNW_MEDIAN = key('halfrank_unwarp_median_mismatch')
K_UNW_CLOSE = key('halfrank_unwarp_isclose_index')


def unwarper_entry(exact):
    def entry(it):
        run = it.run
        K = run.fresh('K', z3.IntSort())
        run.assume(K >= 1)
        ol, wl = W.fresh_array(run, 'orig', (K,), 'float'), W.fresh_array(run, 'warped', (K,), 'float')
        om = run.fresh('omed', z3.RealSort())
        fo, fw = ol.fn, wl.fn
        # class invariant of _HalfRankUnwarper as established by HalfRankComponent.warp (clauses unwarper_*): both tables finite and
        # strictly ascending, same length
        for f in (fo, fw):
            W.fact(run, QA(K, lambda t: X.is_fin(f(t))))
            t1, t2 = z3.Int('tb!1'), z3.Int('tb!2')
            run.axiom(z3.ForAll([t1, t2], z3.Implies(z3.And(t1 >= 0, t1 < t2, t2 < K), X.r(f(t1)) < X.r(f(t2))), patterns=[z3.MultiPattern(f(t1), f(t2))]))
        run.assume(om <= X.r(fw(K - 1)))              # clause unwarper_saved_median_at_most_largest_warped of HalfRankComponent.warp
        if K_UNW_MEDIAN not in LIVE:
            # clause unwarper_tables_consistent_with_saved_median of HalfRankComponent.warp (holds in full only once the recorded defect is fixed)
            W.fact(run, QA(K, lambda t: z3.And(z3.Implies(X.r(fo(t)) >= om, fw(t) == fo(t)), z3.Implies(X.r(fo(t)) < om, X.r(fw(t)) < om))))
        k = run.fresh('k', z3.IntSort())
        run.assume(z3.And(k >= 0, k < K))
        lab = run.fresh('label', z3.RealSort())
        if exact:
            run.assume(lab == X.r(fw(k)))            # the label is the warped value of the k-th observed value
        obj = make(it, '_HalfRankUnwarper', _original_labels=ol, _warped_labels=wl, _original_label_median=X.fin(om))
        run.c18 = {'K': K, 'ol': ol, 'wl': wl, 'fo': fo, 'fw': fw, 'om': om, 'k': k, 'lab': lab}
        return call(it, obj, 'unwarp', X.fin(lab))
    return entry


def unwarper_steps(exact):
    def steps(sc, p):
        c = p.run.c18
        if p.kind == 'raise':
            return sc.step('no_exception', z3.BoolVal(False), claim=True)
        r = X.lift(p.value)
        fo, fw, k, lab, om, K = c['fo'], c['fw'], c['k'], c['lab'], c['om'], c['K']
        sc.step('tables_not_modified', c['ol'].fn is fo and c['wl'].fn is fw, claim=True)
        if not exact:
            sc.step('identity_at_or_above_saved_median', z3.Implies(lab >= om, r == X.fin(lab)), claim=True)
            return
        ss = p.run.__dict__.get('np_searchsorted', [])
        am = p.run.__dict__.get('np_argmins', [])
        terms = [k, k - 1, k + 1, z3.IntVal(0), z3.IntVal(1)]
        hints = []
        if ss:
            s0 = ss[0][2]
            # the lookup: searchsorted(warped, warped[k]) == k on a strictly ascending table
            sc.step('lookup_position_is_the_entry', s0 == k, inst=terms + [s0, s0 - 1])
            hints.append('lookup_position_is_the_entry')
            if am:
                lo = z3.If(s0 - 1 > 0, s0 - 1, 0)
                b0 = am[0][1]
                sc.step('window_argmin_is_the_entry', lo + b0 == k, uses=hints, inst=terms + [b0, k - lo])      # idx-1 <= best_idx <= idx, distance 0 is unique
                hints.append('window_argmin_is_the_entry')
            for t_, (a2, v2, s2, side2) in enumerate(ss[1:]):
                sc.step('later_lookup_%d_is_the_entry' % (t_ + 1), s2 == k, uses=hints, inst=terms + [s2, s2 - 1])
                hints.append('later_lookup_%d_is_the_entry' % (t_ + 1))
        close = W._np_isclose(None, [fw(z3.IntVal(1)), X.fin(lab)], {})
        not_med = sc.hyp(K_UNW_MEDIAN, z3.Not(z3.And(lab >= om, fw(k) != fo(k))))
        not_close = sc.hyp(K_UNW_CLOSE, z3.Not(z3.And(lab < om, k >= 2, close)))
        sc.step('returns_original_of_observed_warped_value', z3.Implies(z3.And(not_med, not_close), r == fo(k)), claim=True, known=(K_UNW_MEDIAN, K_UNW_CLOSE), uses=hints, inst=terms)
    return steps


def unwarper_skip(p):
    return {K_UNW_MEDIAN, K_UNW_CLOSE}


Spec('_HalfRankUnwarper.unwarp', ['_HalfRankUnwarper.unwarp'], unwarper_entry(True), unwarper_steps(True), skip_strong=unwarper_skip, native='unwarper')
Spec('_HalfRankUnwarper.unwarp[any label]', ['_HalfRankUnwarper.unwarp'], unwarper_entry(False), unwarper_steps(False), native='unwarper_any')


# =========================================================================================== HalfRankComponent.unwarp
UNW = z3.Function('UNWARP1', X.XReal, X.XReal)        # the (pure) map computed by _HalfRankUnwarper.unwarp for the saved tables
HRU_LOOP = (OW, 'HalfRankComponent.unwarp', 1)


def spy_unwarper(it):
    def unwarp(it_, args, kw):
        it_.run.c18.setdefault('unw_calls', 0)
        it_.run.c18['unw_calls'] += 1
        return UNW(X.lift(args[0]))
    return Obj('SpyUnwarper', {'unwarp': Builtin('unwarp', unwarp)})


def hr_unwarp_inv(it, fr, ctx):
    arrs = [k for k, v in ctx.entry_env.items() if isinstance(v, NDArray) and v.rank == 1 and v.dtype == 'float']
    if len(arrs) != 1:
        raise Unsupported('loop contract of HalfRankComponent.unwarp: expected exactly one flat float array among the locals')
    cur, ent = fr.env[arrs[0]], ctx.entry_vals[arrs[0]]
    it.run.c18['loop'] = {'ent': ent}
    if ctx.phase == 'head':
        it.run.c18['ax0'] = len(it.run.axioms)
    i = ctx.i
    return [('pointwise_map', QA(cur.shape[0], lambda j: cur.at(j) == z3.If(j < i, UNW(ent.at(j)), ent.at(j))))]


def hr_unwarp_entry(warped_first):
    def entry(it):
        inp = fresh_labels(it)
        obj = make(it, 'HalfRankComponent', _unwarper=spy_unwarper(it) if warped_first else None)
        return call(it, obj, 'unwarp', inp)
    return entry


def hr_unwarp_steps(sc, p):
    c = p.run.c18
    n, f0 = c['n'], c['f0']
    y = validated(f0)
    if p.kind == 'raise':
        def ok(msg):
            if 'nan' in msg.lower():
                return QE(n, lambda t: X.is_nan(y(t)))
            return None
        return raise_steps(sc, p, allowed_when=ok)
    out = p.value
    sc.step('input_not_modified', isinstance(out, NDArray) and out is not c['inp'] and not_modified(c), claim=True)
    sc.step('shape_preserved', shape_is(out, n), claim=True)
    sc.step('nan_rejected', z3.Implies(rng(n, I_), z3.Not(X.is_nan(y(I_)))), claim=True)
    sc.step('applies_unwarper_to_every_entry', z3.Implies(rng(n, I_), out.at(I_, 0) == UNW(y(I_))), claim=True, mode='tail')


Spec('HalfRankComponent.unwarp', ['HalfRankComponent.unwarp', '_validate_labels'], hr_unwarp_entry(True), hr_unwarp_steps,
     native='halfrank_unwarp')
Spec('HalfRankComponent.unwarp[first]', ['HalfRankComponent.unwarp'], hr_unwarp_entry(False), unwarp_first_steps, native='halfrank_unwarp_first')


# =========================================================================================== OutputWarperPipeline.warp / unwarp
def spy_warper(tag):
    def mk(kind):
        def fn(it_, args, kw):
            run = it_.run
            a = args[0]
            n = run.c18['n']
            res = W.fresh_array(run, 'w%d_' % tag, (n, 1), 'float')
            run.c18.setdefault('calls', []).append({'tag': tag, 'kind': kind, 'arg': a, 'arg_fn': a.fn if isinstance(a, NDArray) else None,
                                                    'arg_shape': a.shape if isinstance(a, NDArray) else None, 'res': res, 'res_fn': res.fn})
            return res
        return Builtin('spy.%s' % kind, fn)
    return Obj('SpyWarper%d' % tag, {'warp': mk('warp'), 'unwarp': mk('unwarp')})


def pipeline_entry(k, meth):
    def entry(it):
        inp = fresh_labels(it)
        ws = [spy_warper(t) for t in range(k)]
        obj = make(it, 'OutputWarperPipeline', warpers=ws)
        it.run.c18.update(k=k, obj=obj)
        return call(it, obj, meth, inp)
    return entry


def pipeline_steps(meth):
    def steps(sc, p):
        c = p.run.c18
        n, f0, k = c['n'], c['f0'], c['k']
        y = validated(f0)
        if p.kind == 'raise':
            return raise_steps(sc, p)
        out = p.value
        calls = c.get('calls', [])
        o = lambda t: out.at(t, 0)
        sc.step('input_not_modified', isinstance(out, NDArray) and out is not c['inp'] and not_modified(c) and all(cl['arg'] is not c['inp'] for cl in calls), claim=True)
        sc.step('shape_preserved', shape_is(out, n), claim=True)
        order = list(range(k)) if meth == 'warp' else list(range(k - 1, -1, -1))
        if calls:
            seq = [cl['tag'] for cl in calls] == order and all(cl['kind'] == meth for cl in calls)
            chain = all(calls[t + 1]['arg'] is calls[t]['res'] and calls[t + 1]['arg_fn'] is calls[t]['res_fn'] for t in range(len(calls) - 1))
            sc.step('each_warper_applied_once_in_order', bool(seq and chain and out is calls[-1]['res'] and out.fn is calls[-1]['res_fn']), claim=True)
            a0 = calls[0]
            first_ok = isinstance(a0['arg'], NDArray) and a0['arg'].rank == 2
            sc.step('first_warper_receives_validated_copy',
                    z3.And(shape_is(a0['arg'], n), z3.Implies(rng(n, I_), a0['arg_fn'](I_, z3.IntVal(0)) == y(I_))) if first_ok else False, claim=True)
            if meth == 'warp':
                sc.step('constant_labels_take_the_shortcut', z3.Implies(z3.And(n >= 1, QA(n, lambda t: X.is_fin(y(t)))), QE(n, lambda t: y(t) != y(0))), claim=True)
                sc.step('all_infeasible_takes_the_shortcut', QE(n, lambda t: z3.Not(X.is_nan(y(t)))), claim=True)
            return
        # no component was called
        v = z3.simplify(o(I_))
        if meth == 'warp':
            if v.eq(X.fin(z3.RealVal(0))):
                sc.step('zeros_only_for_constant_finite_labels', z3.Implies(rng(n, I_, J_), z3.And(X.is_fin(y(I_)), y(I_) == y(J_))), claim=True)
                sc.step('shortcut_output_finite', True, claim=True)
            elif v.eq(X.fin(z3.RealVal(-1))):
                sc.step('minus_one_only_when_all_infeasible', z3.Implies(rng(n, I_), X.is_nan(y(I_))), claim=True)
                sc.step('shortcut_output_finite', True, claim=True)
            else:
                sc.step('no_warpers_means_validated_copy', z3.And(k == 0, z3.Implies(rng(n, I_), o(I_) == y(I_))), claim=True)
        else:
            if v.eq(X.nan):
                sc.step('nan_only_for_all_minus_one', z3.Implies(rng(n, I_), y(I_) == X.fin(z3.RealVal(-1))), claim=True)
            else:
                sc.step('unchanged_only_for_all_zero_or_no_warpers', z3.Implies(rng(n, I_), z3.And(o(I_) == y(I_), z3.Or(k == 0, y(I_) == X.fin(z3.RealVal(0))))), claim=True)
    return steps


for _k in (0, 1, 3):
    Spec('OutputWarperPipeline.warp[%d warpers]' % _k, ['OutputWarperPipeline.warp', '_validate_labels'], pipeline_entry(_k, 'warp'), pipeline_steps('warp'),
         native='pipeline_warp')
    Spec('OutputWarperPipeline.unwarp[%d warpers]' % _k, ['OutputWarperPipeline.unwarp', '_validate_labels'], pipeline_entry(_k, 'unwarp'), pipeline_steps('unwarp'),
         native='pipeline_unwarp')


# =========================================================================================== ZScoreLabels / NormalizeLabels / DetectOutliers
def plain(clsname, **attrs):
    return Obj(mod().classes[clsname], attrs)


def zscore_entry(it):
    inp = fresh_labels(it)
    return call(it, plain('ZScoreLabels'), 'warp', inp)


def all_nan(c):
    y = validated(c['f0'])
    return QA(c['n'], lambda t: X.is_nan(y(t)))


def monotone_steps(sc, p, strict_when=None, allow_allnan_error=True):
    """clauses shared by the element-wise normalisers: frame, shape, NaN untouched, order never reversed, ties kept"""
    c = p.run.c18
    n, f0 = c['n'], c['f0']
    y = validated(f0)
    if p.kind == 'raise':
        def ok(msg):
            return all_nan(c) if ('non-NaN' in msg and allow_allnan_error) else None
        raise_steps(sc, p, allowed_when=ok)
        return None
    out = p.value
    o = lambda t: out.at(t, 0)
    fin2 = z3.And(rng(n, I_, J_), X.is_fin(y(I_)), X.is_fin(y(J_)))
    sc.step('input_not_modified', isinstance(out, NDArray) and out is not c['inp'] and not_modified(c), claim=True)
    sc.step('shape_preserved', shape_is(out, n), claim=True)
    sc.step('nan_untouched', z3.Implies(z3.And(rng(n, I_), X.is_nan(y(I_))), X.is_nan(o(I_))), claim=True)
    sc.step('finite_to_finite', z3.Implies(z3.And(rng(n, I_), X.is_fin(y(I_))), X.is_fin(o(I_))), claim=True)
    sc.step('order_never_reversed', z3.Implies(z3.And(fin2, X.lt(y(I_), y(J_))), X.le(o(I_), o(J_))), claim=True, uses=['finite_to_finite'])
    sc.step('ties_preserved', z3.Implies(z3.And(fin2, y(I_) == y(J_)), o(I_) == o(J_)), claim=True)
    return o, y, fin2


def zscore_steps(sc, p):
    r = monotone_steps(sc, p)
    if r is None:
        return
    o, y, fin2 = r
    sc.step('distinct_values_stay_distinct', z3.Implies(z3.And(fin2, X.lt(y(I_), y(J_))), X.lt(o(I_), o(J_))), claim=True, uses=['finite_to_finite'])


Spec('ZScoreLabels.warp', ['ZScoreLabels.warp', '_validate_labels'], zscore_entry, zscore_steps, native='zscore')


def normalize_entry(it):
    run = it.run
    inp = fresh_labels(it)
    a, b = run.fresh('ta', z3.RealSort()), run.fresh('tb', z3.RealSort())
    run.c18.update(ta=a, tb=b, ctor_pending=True)
    # the REAL constructor (__attrs_post_init__ rejects target_interval[0] > target_interval[1])
    obj = it.call(mod().classes['NormalizeLabels'], [], {'target_interval': (X.fin(a), X.fin(b))})
    run.c18.update(obj=obj, ctor_pending=False)
    return call(it, obj, 'warp', inp)


def normalize_steps(sc, p):
    r = monotone_steps(sc, p)
    if r is None:
        return
    o, y, fin2 = r
    c = p.run.c18
    n = c['n']
    sc.step('within_target_interval', z3.Implies(z3.And(rng(n, I_), X.is_fin(y(I_))), z3.And(X.r(o(I_)) >= c['ta'], X.r(o(I_)) <= c['tb'])), claim=True,
            uses=['finite_to_finite'])
    sc.step('distinct_values_stay_distinct_for_nondegenerate_target',
            z3.Implies(z3.And(fin2, c['ta'] < c['tb'], X.lt(y(I_), y(J_))), X.lt(o(I_), o(J_))), claim=True, uses=['finite_to_finite'])


Spec('NormalizeLabels.warp', ['NormalizeLabels.warp', '_validate_labels'], normalize_entry, normalize_steps, native='normalize')


def outliers_entry(it):
    run = it.run
    inp = fresh_labels(it)
    mz = run.fresh('min_zscore', z3.RealSort())
    run.c18['mz'] = mz
    obj = make(it, 'DetectOutliers', min_zscore=X.fin(mz), max_zscore=None)
    for a in W.math_axioms():
        run.axiom(a)
    return call(it, obj, 'warp', inp)


def outliers_steps(sc, p):
    c = p.run.c18
    n, f0 = c['n'], c['f0']
    y = validated(f0)
    if p.kind == 'raise':
        def ok(msg):
            if 'should be finite' in msg or 'zero-size' in msg:
                return z3.Not(QE(n, lambda t: X.is_fin(y(t))))       # no finite label at all: rejected with a ValueError
            return None
        return raise_steps(sc, p, allowed_when=ok)
    out = p.value
    o = lambda t: out.at(t, 0)
    fin2 = z3.And(rng(n, I_, J_), X.is_fin(o(I_)), X.is_fin(o(J_)))
    sc.step('input_not_modified', isinstance(out, NDArray) and out is not c['inp'] and not_modified(c), claim=True)
    sc.step('shape_preserved', shape_is(out, n), claim=True)
    mz = c['mz']
    C = C_outliers(y, o, n, mz >= 0)
    sc.step('each_entry_kept_or_marked_infeasible', C['each_entry_kept_or_marked_infeasible'], claim=True)
    sc.step('order_and_ties_of_kept_entries_preserved',
            z3.Implies(fin2, z3.And(X.lt(y(I_), y(J_)) == X.lt(o(I_), o(J_)), (y(I_) == y(J_)) == (o(I_) == o(J_)))), claim=True,
            mode='iso', uses=['each_entry_kept_or_marked_infeasible'])
    sc.step('only_labels_below_kept_ones_are_dropped', C['only_labels_below_kept_ones_are_dropped'], claim=True)
    sc.step('some_label_is_kept', C['some_label_is_kept'], claim=True)


Spec('DetectOutliers.warp', ['DetectOutliers.warp', 'DetectOutliers._estimate_variance', '_validate_labels'], outliers_entry, outliers_steps, native='outliers')


# =========================================================================================== the pipelines as compositions of the component contracts
def quantified(f):
    """a clause over the free row indices I_, J_ (A_, B_) as a library fact for the composition"""
    vs = [v for v in (I_, J_, A_, B_) if _occurs(f, v)]
    return z3.ForAll(vs, f) if vs else f


def _occurs(f, v):
    seen, todo = set(), [f]
    while todo:
        x = todo.pop()
        if x.get_id() in seen:
            continue
        seen.add(x.get_id())
        if x.eq(v):
            return True
        todo.extend(x.children())
    return False


def component_contract(kind):
    """assume-guarantee: inside a pipeline the component is replaced by the clauses proved for it by its own specification (same formulas,
    built by the same C_* functions); when a recorded finding is live the clause is assumed in its residual form only"""
    def fn(it, args, kw):
        self, a = args[0], args[1]
        run = it.run
        if not isinstance(a, NDArray) or a.rank != 2:
            raise Unsupported('pipeline stage applied to %r' % (a,))
        n, f = a.shape[0], a.fn
        haspinf = W.named_bool(it, QE(n, lambda t: X.is_pinf(f(t, 0))), 'haspinf')
        if it.truth(haspinf):
            raise PyRaise(it.make_exc('ValueError', ['Infinity metric value is not valid.']))
        y = validated(f)
        res = W.fresh_array(run, kind, (n, 1), 'float')
        g = res.fn
        o = lambda t: g(t, 0)
        nz = zi(n)
        if kind == 'halfrank':
            G = QA(n, lambda t: X.is_fin(f(t, 0))) if K_HR_NAN in LIVE else z3.BoolVal(True)
            C = C_halfrank(y, o, nz, W.named_bool(it, G, 'hr_nan_free'))
            names = list(C)
        elif kind == 'log':
            off = X.lift(self.attrs['offset'])
            g_off = (X.r(off) != 1) if K_LOG_OFFSET1 in LIVE else z3.BoolVal(True)
            two = z3.And(rng(nz, A_, B_), X.is_fin(y(A_)), X.is_fin(y(B_)), y(A_) != y(B_))
            C = C_log(y, o, nz, g_off, z3.And(g_off, two) if K_LOG_CONST in LIVE else z3.BoolVal(True))
            names = list(C)
        elif kind == 'infeasible':
            C = C_infeasible(y, o, nz)
            names = list(C)
        else:
            raise Unsupported('component contract %s' % kind)
        for nm in names:
            run.axiom(quantified(C[nm]))
        run.c18.setdefault('stages', []).append({'kind': kind, 'y': y, 'o': o, 'arg': a, 'res': res})
        run.assumed.add('pipeline stage %s replaced by the clauses proved for it by its own specification (assume-guarantee)' % kind)
        return res
    return fn


COMPONENT_MODELS = {
    OW + ':HalfRankComponent.warp': component_contract('halfrank'),
    OW + ':LogWarperComponent.warp': component_contract('log'),
    OW + ':InfeasibleWarperComponent.warp': component_contract('infeasible'),
}


def default_pipeline_entry(it):
    inp = fresh_labels(it)
    pipe = it.call(FuncVal(mod(), mod().funcs['create_default_warper']), [], {})
    it.run.c18['pipe'] = pipe
    return call(it, pipe, 'warp', inp)


def default_pipeline_steps(sc, p):
    c = p.run.c18
    n, f0 = c['n'], c['f0']
    y = validated(f0)
    nonan = QA(n, lambda t: X.is_fin(f0(t, 0)))
    if p.kind == 'raise':
        return raise_steps(sc, p, known=(K_HR_NAN, lambda p_: z3.Not(nonan), ('ValueError',)))
    out = p.value
    o = lambda t: out.at(t, 0)
    st = c.get('stages', [])
    fin2 = z3.And(rng(n, I_, J_), X.is_fin(y(I_)), X.is_fin(y(J_)))
    G = sc.hyp(K_HR_NAN, nonan)
    sc.step('input_not_modified', isinstance(out, NDArray) and out is not c['inp'] and not_modified(c), claim=True)
    sc.step('shape_preserved', shape_is(out, n), claim=True)
    if st:
        sc.step('default_components_in_order', [s_['kind'] for s_ in st] == ['halfrank', 'log', 'infeasible'] and out is st[-1]['res'], claim=True)
        # stage-wise lemmas (each from one component contract), then the end-to-end clauses
        h, l = st[0]['o'], st[1]['o'] if len(st) > 1 else None
        sc.step('stage1_input_is_validated_copy', z3.Implies(rng(n, I_), st[0]['y'](I_) == y(I_)))
        sc.step('stage1_nan', z3.Implies(z3.And(rng(n, I_), X.is_nan(y(I_))), X.is_nan(h(I_))), uses=['stage1_input_is_validated_copy'])
        sc.step('stage1_no_inf', z3.Implies(rng(n, I_), z3.Or(X.is_fin(h(I_)), X.is_nan(h(I_)))), uses=['stage1_input_is_validated_copy'])
        sc.step('stage1_ties', z3.Implies(z3.And(fin2, y(I_) == y(J_)), h(I_) == h(J_)), uses=['stage1_input_is_validated_copy'])
        sc.step('stage1_order', z3.Implies(z3.And(fin2, G, X.lt(y(I_), y(J_))), z3.And(X.is_fin(h(I_)), X.is_fin(h(J_)), X.lt(h(I_), h(J_)))),
                uses=['stage1_input_is_validated_copy'], known=K_HR_NAN)
        if len(st) == 3:
            sc.step('stage2_input', z3.Implies(rng(n, I_), st[1]['y'](I_) == h(I_)), uses=['stage1_no_inf'])
            sc.step('stage2_nan', z3.Implies(z3.And(rng(n, I_), X.is_nan(h(I_))), X.is_nan(l(I_))), uses=['stage2_input'])
            sc.step('stage2_no_inf', z3.Implies(rng(n, I_), z3.Or(X.is_fin(l(I_)), X.is_nan(l(I_)))), uses=['stage2_input'])
            sc.step('stage2_ties', z3.Implies(z3.And(rng(n, I_, J_), X.is_fin(h(I_)), X.is_fin(h(J_)), h(I_) == h(J_)), l(I_) == l(J_)), uses=['stage2_input'])
            sc.step('stage2_order', z3.Implies(z3.And(rng(n, I_, J_), X.is_fin(h(I_)), X.is_fin(h(J_)), X.lt(h(I_), h(J_))),
                                               z3.And(X.is_fin(l(I_)), X.is_fin(l(J_)), X.lt(l(I_), l(J_)))), uses=['stage2_input'])
            sc.step('stage3_input', z3.Implies(rng(n, I_), st[2]['y'](I_) == l(I_)), uses=['stage2_no_inf'])
            sc.step('stage3_order', z3.Implies(z3.And(rng(n, I_, J_), X.is_fin(l(I_)), X.is_fin(l(J_))),
                                               z3.And(X.lt(l(I_), l(J_)) == X.lt(o(I_), o(J_)), (l(I_) == l(J_)) == (o(I_) == o(J_)))), uses=['stage3_input'])
            sc.step('stage3_nan_below', z3.Implies(z3.And(rng(n, I_, J_), X.is_nan(l(I_))), z3.And(X.le(o(I_), o(J_)), z3.Implies(X.is_nan(l(J_)), o(I_) == o(J_)))),
                    uses=['stage3_input'])
            chain = ['stage1_nan', 'stage1_no_inf', 'stage1_ties', 'stage1_order', 'stage2_nan', 'stage2_no_inf', 'stage2_ties', 'stage2_order', 'stage3_order',
                     'stage3_nan_below']
            sc.step('all_outputs_finite', z3.Implies(rng(n, I_), X.is_fin(o(I_))), claim=True)
            sc.step('infeasible_no_higher_than_any_feasible', z3.Implies(z3.And(rng(n, I_, J_), X.is_nan(y(I_)), X.is_fin(y(J_))), X.le(o(I_), o(J_))), claim=True,
                    mode='iso', uses=chain)
            sc.step('ties_preserved', z3.Implies(z3.And(fin2, y(I_) == y(J_)), o(I_) == o(J_)), claim=True, mode='iso', uses=chain)
            sc.step('order_of_feasible_preserved', z3.Implies(z3.And(fin2, G, X.lt(y(I_), y(J_))), X.lt(o(I_), o(J_))), claim=True, mode='iso', uses=chain,
                    known=K_HR_NAN)
            sc.step('infeasible_strictly_below_feasible_when_ranking_survives',
                    z3.Implies(z3.And(rng(n, I_, J_, A_), G, X.is_nan(y(I_)), X.is_fin(y(J_)), X.is_fin(y(A_)), y(A_) != y(J_)), X.lt(o(I_), o(J_))), claim=True,
                    known=K_HR_NAN)
        return
    v = z3.simplify(o(I_))
    if v.eq(X.fin(z3.RealVal(0))):
        sc.step('constant_labels_all_zero', z3.Implies(rng(n, I_, J_), z3.And(X.is_fin(y(I_)), y(I_) == y(J_))), claim=True)
    elif v.eq(X.fin(z3.RealVal(-1))):
        sc.step('all_infeasible_all_minus_one', z3.Implies(rng(n, I_), X.is_nan(y(I_))), claim=True)
    else:
        sc.step('shortcut_value_is_zero_or_minus_one', False, claim=True)
    sc.step('all_outputs_finite', True, claim=True)


def default_pipeline_skip(p):
    return {K_HR_NAN}


Spec('create_default_warper().warp', ['create_default_warper', 'OutputWarperPipeline.warp', '_validate_labels'], default_pipeline_entry, default_pipeline_steps,
     skip_strong=default_pipeline_skip, models=COMPONENT_MODELS, native='default_pipeline')


# =========================================================================================== driver: native side, parallel proof tasks, verdicts
GENERIC_LIBS = ['numpy.masks_and_copies', 'scalar_math_and_transcendental_axioms']
SHARDS = {'HalfRankComponent.warp': 6, 'create_default_warper().warp': 2, 'DetectOutliers.warp': 2}


def _child(conn, spec_index, tier, live, shard):
    try:
        os.setpgrp()
    except OSError:
        pass
    try:
        LIVE.clear()
        LIVE.update(live)
        res = run_spec(SPECS[spec_index], tier, live=live, shard=shard)
        res['assumed'], res['lib'], res['inlined'] = sorted(res['assumed']), sorted(res['lib']), sorted(res['inlined'])
        conn.send(('ok', res))
    except BaseException:  # noqa: BLE001
        conn.send(('error', traceback.format_exc()))
    finally:
        conn.close()


def run_tasks(chk, tier, specs, live, budget_s):
    import multiprocessing
    import signal
    ctx = multiprocessing.get_context('fork')
    tasks = []
    for sp in specs:
        k = SHARDS.get(sp.name, 1)
        for w in range(k):
            tasks.append((sp, (w, k)))
    maxpar = min(8, int(os.environ.get('VERIF_C18_PROCS', '8')))       # one flat pool of at most 8 forked proof tasks (never nested)
    pending, running, done = list(tasks), [], {}
    t_end = time.time() + budget_s
    while pending or running:
        while pending and len(running) < maxpar:
            sp, shard = pending.pop(0)
            a, b = ctx.Pipe(duplex=False)
            pr = ctx.Process(target=_child, args=(b, SPECS.index(sp), tier, set(live), shard))
            pr.start()
            b.close()
            running.append((sp, shard, pr, a))
        still = []
        for sp, shard, pr, a in running:
            msg = None
            try:
                if a.poll(0.05):
                    msg = a.recv()
            except EOFError:
                msg = ('error', 'the proof task died')
            if msg is None and time.time() > t_end:
                try:
                    os.killpg(pr.pid, signal.SIGKILL)
                except OSError:
                    pr.terminate()
                msg = ('error', 'the proof task did not finish within the budget (%ds)' % budget_s)
            if msg is None:
                still.append((sp, shard, pr, a))
                continue
            pr.join(5)
            done.setdefault(sp.name, []).append(msg)
        running = still
    return done


def native_jobs(pool, tier, open_keys):
    if open_keys:             # only OPEN findings are replayed; entries with status "fixed" are history (never replayed, suppress nothing)
        pool.start('witness', 'c18_replay.py', ['witness'] + sorted(open_keys))
    pool.start('conformance', 'c18_conformance.py', ['300' if tier == 'quick' else '3000'])


def finding_entries(chk):
    out = {}
    for f in chk.findings:
        if f.get('key'):
            out[f['key']] = f
    return out


def record_spec(chk, spec, msgs, findings, conf, falsify_jobs):
    """aggregate the plain-data results of one specification into obligations; unproved untagged clauses are queued for native falsification"""
    pre = 'C18.%s.' % spec.name
    errs = [m[1] for m in msgs if m[0] != 'ok']
    if errs:
        chk.error(pre + 'task', 'checker failure (not a violation): %s' % errs[0][-1500:])
        return
    ress = [m[1] for m in msgs]
    inst = [r for res in ress for r in res['inst']]
    unsupported = sorted({u for res in ress for u in res['unsupported']})
    for a in sorted({a for res in ress for a in res['assumed']}):
        chk.assume(a)
    if unsupported:
        chk.obligation(pre + 'supported', spec.name, 'checker', report.ERROR, 0.0,
                       detail='the real code left the supported subset: %s' % '; '.join(unsupported)[:1500])
        # nothing is claimed for this function (its paths are not all covered); its clauses are still evaluated on the real code over the native
        # battery (bounded stand-in): a failure reproduced there is a violation, which dominates the checker error
        if spec.native:
            falsify_jobs.append({'oname': pre + '*', 'spec': spec, 'clause': '*', 'tsum': 0.0, 'detail': {'unsupported': unsupported[:3]}, 'bad_libs': [], 'cases': [],
                                 'star': True})
        return
    live_paths = [k for k, d in ress[0]['paths'] if k in ('return', 'raise')]
    if not live_paths and not unsupported:
        chk.obligation(pre + 'vacuity', spec.name, 'checker', report.ERROR, 0.0, detail='no terminating path explored')
    vac = [v for res in ress for v in res.get('vacuity', [])]
    if vac and all(v == 'unsat' for v in vac):
        chk.obligation(pre + 'vacuity', spec.name, 'checker', report.ERROR, 0.0,
                       detail='the assumptions of every checked returning path are inconsistent (everything would be provable)')
    agg = chk.extra.setdefault('second_solver_cvc5', {'checked': 0, 'agree_unsat': 0, 'unknown': 0, 'sat': 0, 'errors': 0})
    for res in ress:
        for k2, v2 in (res.get('second') or {}).items():
            agg[k2] = agg.get(k2, 0) + v2
    ragg = chk.extra.setdefault('solver_budget_ladder', {})
    for res in ress:
        for k2, v2 in (res.get('rounds') or {}).items():
            ragg[k2] = max(ragg.get(k2, 0), v2) if k2.startswith('max ') else ragg.get(k2, 0) + v2
    libs = sorted({l for res in ress for l in res['lib']} | set(GENERIC_LIBS))
    bad_libs = [l for l in libs if not (conf.get(l) or {}).get('ok')]
    groups = {}
    for r in inst:
        groups.setdefault((r['kind'], r['name']), []).append(r)
    nclaims = 0
    # a loop invariant / library precondition that is not discharged: the clauses derived from it are additionally tested on the real code
    engine_bad = sorted({r['name'] for r in inst if r['kind'] == 'engine' and r['verdict'] != 'unsat'})
    for (kind, name), recs in groups.items():
        tsum = sum(r['dt'] for r in recs)
        strong = [r for r in recs if r['strong']]
        weak = {r['pi']: r for r in recs if not r['strong']}
        detail = {'instances': len(recs), 'paths': len({r['pi'] for r in recs})}
        if kind == 'engine':
            oname = pre + 'engine.' + name
            bad = [r for r in recs if r['verdict'] != 'unsat']
            if bad:
                detail['reason'] = 'solver budget exhausted (unknown) on path(s) %s' % sorted({r['pi'] for r in bad})[:8]
                chk.obligation(oname, spec.name, 'z3', report.UNDECIDED, tsum, detail=detail)
            else:
                chk.obligation(oname, spec.name, 'z3', report.PROVED, tsum, detail=detail)
            continue
        if kind == 'lemma':
            ok = all((r['verdict'] == 'unsat') or (weak.get(r['pi'], {}).get('verdict') == 'unsat') for r in strong) and \
                all(w['verdict'] == 'unsat' for pi, w in weak.items() if not any(r['pi'] == pi for r in strong))
            only_weak = any(r['verdict'] != 'unsat' for r in strong) or any(not any(r['pi'] == pi for r in strong) for pi in weak)
            if ok:
                detail['role'] = 'lemma (cut): proved on its path, then used as a hypothesis by later steps of the same path'
                if only_weak:
                    detail['form'] = 'residual form: proved under the hypothesis "outside the witness class of the recorded finding(s) %s"' % \
                        sorted({k for r in recs for k in r['known']})
                chk.obligation(pre + 'lemma.' + name + ('.residual' if only_weak else ''), spec.name, 'z3', report.PROVED, tsum, detail=detail)
            else:
                chk.note('proof step %slemma.%s was not discharged on every path (the clauses that need it are reported on their own).' % (pre, name))
            continue
        # ---- a property clause
        nclaims += 1
        oname = pre + name
        # a tagged clause none of whose findings is live has the same formula in the residual run (hyp() adds nothing): that proof counts
        failing = [r for r in strong if r['verdict'] != 'unsat'
                   and not (not (set(r['known']) & LIVE) and weak.get(r['pi'], {}).get('verdict') == 'unsat')]
        if not failing:
            if bad_libs:
                falsify_jobs.append({'oname': oname, 'spec': spec, 'clause': name, 'tsum': tsum, 'detail': detail, 'bad_libs': bad_libs,
                                     'cases': [conf[l].get('counterexample') for l in bad_libs if (conf.get(l) or {}).get('counterexample')]})
            elif engine_bad:
                detail['derived_from_undischarged'] = engine_bad
                falsify_jobs.append({'oname': oname, 'spec': spec, 'clause': name, 'tsum': tsum, 'detail': detail, 'bad_libs': [], 'cases': [],
                                     'proved_modulo': engine_bad})
            else:
                chk.obligation(oname, spec.name, 'z3' if not all(r['dt'] == 0.0 for r in recs) else 'paths', report.PROVED, tsum, detail=detail)
            continue
        tags = {k for r in failing for k in r['known']}
        live_tags = sorted(k for k in tags if k in LIVE and k in findings)
        resid_ok = all(weak.get(r['pi'], {}).get('verdict') == 'unsat' for r in failing)
        if live_tags and resid_ok and not bad_libs and engine_bad:
            # the residual proof rests on an undischarged loop invariant / precondition: test the clause natively OUTSIDE the finding classes
            detail['derived_from_undischarged'] = engine_bad
            falsify_jobs.append({'oname': oname, 'spec': spec, 'clause': name, 'tsum': tsum, 'detail': detail, 'bad_libs': [], 'cases': [],
                                 'exclude': sorted(tags), 'known_if_not_found': ('; '.join('%s [%s]' % (findings[k]['what'], k) for k in live_tags), live_tags,
                                                                                   sum(w['dt'] for w in weak.values()), len(failing))})
            continue
        if live_tags and resid_ok and not bad_libs:
            what = '; '.join('%s [%s]' % (findings[k]['what'], k) for k in live_tags)
            detail['finding_keys'] = live_tags
            chk.obligation(oname, spec.name, 'z3+native-witness', report.KNOWN, tsum, detail=detail, finding=what)
            chk.obligation(oname + '.residual', spec.name, 'z3', report.PROVED, sum(w['dt'] for w in weak.values()),
                           detail={'clause': 'the same clause for every input outside the witness class(es) of %s' % live_tags, 'instances': len(failing)})
            continue
        detail['verdicts'] = sorted({r['verdict'] for r in failing})
        detail['definitely_false_on_a_path'] = any(r['verdict'] == 'false' for r in failing)
        falsify_jobs.append({'oname': oname, 'spec': spec, 'clause': name, 'tsum': tsum, 'detail': detail, 'bad_libs': bad_libs, 'cases': []})
    if nclaims < spec.min_claims and not unsupported:
        chk.obligation(pre + 'vacuity', spec.name, 'checker', report.ERROR, 0.0, detail='only %d property clauses generated' % nclaims)


def settle_falsification(chk, jobs):
    """clauses that were not proved (or rest on a library contract the installed library violates): a failing input reproduced on the real code
    is a violation; nothing found = undecided"""
    if not jobs:
        return
    payload = [{'runner': j['spec'].native, 'clause': j['clause'], 'cases': [c for c in j['cases'] if c], 'exclude': j.get('exclude', [])} for j in jobs]
    out, raw = ckit.run_replay('c18_replay.py', ['falsify'], payload=payload, timeout=600)
    results = (out or {}).get('results') or [None] * len(jobs)
    for j, r in zip(jobs, results):
        d = dict(j['detail'])
        if j.get('star'):
            viol = (r or {}).get('violated') or {}
            for cl, rv in sorted(viol.items()):
                rep = {'runner': rv.get('runner'), 'clause': cl, 'labels': rv.get('input'), 'params': rv.get('params'), 'observed': rv.get('observed')}
                chk.obligation('C18.%s.%s' % (j['spec'].name, cl), j['spec'].name, 'native-replay (bounded stand-in)', report.VIOLATED, 0.0,
                               detail={'refuted_by': 'failing input found on the real code by the native battery; the symbolic check of this function left the '
                                                     'supported subset (reported separately)', 'evaluated_arrays': (r or {}).get('evaluated')},
                               model='labels=%s params=%s observed=%s' % (rv.get('input'), rv.get('params'), rv.get('observed')), replay=rep, reproduced=True)
            chk.bounded_standin('native battery for %s (function outside the supported subset)' % j['spec'].name, 'deterministic battery of label arrays, length 1..6',
                                'violated clauses: %s' % sorted(viol), detail=(r or {}).get('evaluated'))
            continue
        if j['bad_libs']:
            d['false_library_assumption'] = 'the installed library violates the assumed contract(s) %s (replay/c18_conformance.py)' % j['bad_libs']
        if r and r.get('found'):
            rep = {'runner': r.get('runner'), 'clause': r.get('clause'), 'labels': r.get('input'), 'params': r.get('params'), 'observed': r.get('observed'),
                   'how_to_replay': 'echo \'{"runner": "%s", "clause": "%s", "cases": [%s], "limit": 0}\' | /venv/bin/python /verif/replay/c18_replay.py falsify'
                                    % (r.get('runner'), r.get('clause'), json.dumps(r.get('input')))}
            d['refuted_by'] = 'failing input found on the real code (native replay of the clause predicate)'
            chk.obligation(j['oname'], j['spec'].name, 'z3+native-replay', report.VIOLATED, j['tsum'], detail=d,
                           model='labels=%s params=%s observed=%s' % (r.get('input'), r.get('params'), r.get('observed')), replay=rep, reproduced=True)
        elif d.get('definitely_false_on_a_path'):
            chk.obligation(j['oname'], j['spec'].name, 'paths', report.VIOLATED, j['tsum'], detail=d,
                           model='the clause is decidably false on a feasible path of the real AST (frame / call-sequence clause)', replay=None, reproduced=None)
        elif j.get('known_if_not_found'):
            what, live_tags, wdt, nfail = j['known_if_not_found']
            d['finding_keys'] = live_tags
            chk.obligation(j['oname'], j['spec'].name, 'z3+native-witness', report.KNOWN, j['tsum'], detail=d, finding=what)
            chk.obligation(j['oname'] + '.residual', j['spec'].name, 'z3', report.PROVED, wdt,
                           detail={'clause': 'the same clause for every input outside the witness class(es) of %s' % live_tags, 'instances': nfail,
                                   'note': 'derived from the loop invariant / precondition obligations %s, which are reported undecided on their own' % d.get('derived_from_undischarged')})
        elif j.get('proved_modulo'):
            d['note'] = 'derived from the loop invariant / precondition obligations %s, which are reported undecided on their own' % j['proved_modulo']
            chk.obligation(j['oname'], j['spec'].name, 'z3', report.PROVED, j['tsum'], detail=d)
        else:
            d['reason'] = 'not proved (solver unknown) and no failing input found natively: %s' % (r if r is not None else raw[-300:])
            chk.obligation(j['oname'], j['spec'].name, 'z3', report.UNDECIDED, j['tsum'], detail=d)


def main(tier):
    if os.environ.get('PYTHONHASHSEED') != '0':
        # z3 verdicts near a budget depend on the order in which terms are created; fix python's string hashing so that every run of this check
        # builds its terms in the same order (budgets are rlimits: same order + same budget = same verdict, whatever the machine load)
        import subprocess
        env2 = dict(os.environ, PYTHONHASHSEED='0', VERIF_TIER=tier)
        return subprocess.call([sys.executable, '-m', 'pyvc.check', 'C18', '--tier', tier], env=env2, cwd=report.VERIF)
    chk = report.Check('C18', tier, level='proof',
                       technique='contract-based deductive verification of the real output_warpers.py: VCs from the real AST (pyvc symbolic execution; numpy/scipy '
                                 'as assumed contracts over symbolic-size arrays; loop invariants; per-path proof scripts of lemmas over two arbitrary row '
                                 'indices), z3; pipelines by assume-guarantee composition of the component contracts; native conformance tests of every '
                                 'library contract; native replay for refutation')
    for t in ('pyvc VC generator and its Python models (DESIGN 2, 4)', 'z3 5.1.0',
              'numpy fragment of pyvc/np_model.py + float-array fragment of pyvc/warp_model.py (each library contract conformance-tested natively)') + tuple(AM.TRUST[:1]):
        chk.trust(t)
    chk.assume(ARITH)
    for a in W.MATH_AXIOMS:
        chk.assume('transcendental functions are uninterpreted real functions with: ' + a)
    chk.assume('label arrays have shape (n, 1), n >= 1, dtype float (any mix of finite values, NaN, -inf, +inf); rank-1 inputs are shown to be rejected')
    chk.assume('iterating zip(array, ranks) reads a snapshot of the array (the loop of HalfRankComponent.warp writes element i only after reading it)')
    quals = []
    for sp in SPECS:
        for q in sp.quals:
            if q not in quals:
                quals.append(q)
    for q in quals:
        chk.function(OW, q)
    specs = [sp for sp in SPECS if not ONLY or any(o in sp.name for o in ONLY)]
    pool = ckit.ReplayPool()
    findings = {k: f for k, f in finding_entries(chk).items() if f.get('status', 'open') == 'open'}
    native_jobs(pool, tier, set(findings))
    wout, wraw, wit = {}, '', {}
    if findings:
        wout, wraw = pool.get('witness', timeout=900)
        wit = (wout or {}).get('witness') or {}
        if wout is None:
            chk.error('C18.native.witness', 'the witness programs of the recorded findings could not be run: %s' % wraw[-800:])
    LIVE.clear()
    for k, f in findings.items():
        if f.get('status', 'open') != 'open':
            continue
        if (wit.get(k) or {}).get('reproduced'):
            LIVE.add(k)
            chk.note('finding %s re-confirmed on the real code.' % k)
        elif wout is not None:
            print('NOTE: property=C18 the recorded finding %s no longer reproduces on the current code (stale entry in known_findings.d/C18.json); '
                  'its clauses are checked in full' % k)
            chk.note('finding %s is stale (its witness no longer fails).' % k)
    done = run_tasks(chk, tier, specs, LIVE, budget_s=1500 if tier == 'quick' else 4000)       # safety net only (a hung solver), not a budget
    cout, craw = pool.get('conformance', timeout=1800)
    conf = (cout or {}).get('contracts') or {}
    if cout is None:
        chk.error('C18.native.conformance', 'the library conformance tests could not be run: %s' % craw[-800:])
    else:
        chk.extra['library_conformance'] = {'numpy': cout.get('numpy'), 'scipy': cout.get('scipy'), 'contracts': conf}
        for k, v in conf.items():
            if not v.get('ok'):
                print('NOTE: property=C18 the installed library violates the assumed contract %s (counterexample %s): obligations resting on it are not '
                      'counted as proved' % (k, v.get('counterexample')))
    jobs = []
    for sp in specs:
        record_spec(chk, sp, done.get(sp.name, [('error', 'no result')]), findings, conf, jobs)
    settle_falsification(chk, jobs)
    sec = chk.extra.get('second_solver_cvc5') or {}
    if sec.get('sat'):
        chk.error('C18.second_solver', 'cvc5 answers sat on %d quantifier-free proof step(s) that z3 answered unsat' % sec['sat'])
    if tier == 'thorough' and not ONLY:
        # supplementary, never counted: every natively evaluable clause on the deterministic battery of label arrays (real code)
        bout, braw = ckit.run_replay('c18_replay.py', ['all'], timeout=900)
        viol = sorted(((bout or {}).get('violated') or {}).keys()) if bout else None
        chk.bounded_standin('native battery of the clause predicates on the real warpers', 'about 300 label arrays of length 1..6 per runner and parameter setting '
                            '(duplicates, NaN, -inf, +inf, magnitudes 1e-3..1e9), floating point', 'violated clauses: %s (all of them belong to recorded findings)' % viol
                            if viol is not None else 'could not be run', detail=(bout or {}).get('violated') if bout else braw[-500:])
    chk.extra['findings_live'] = sorted(LIVE)
    chk.extra['library_contracts'] = dict(W.CONTRACTS)
    return chk.finish(min_obligations=60 if not ONLY else 1)


# =========================================================================================== TransformToGaussian
K_TTG_RANK = key('ttg_use_rank_argsort')


def ttg_entry(it):
    run = it.run
    inp = fresh_labels(it)
    ur = run.fresh('use_rank', z3.BoolSort())
    for a in W.math_axioms():
        run.axiom(a)
    run.c18.update(use_rank=ur, ctor_pending=True)
    obj = it.call(mod().classes['TransformToGaussian'], [], {'use_rank': ur})       # the real __init__ (default soft-clip parameters)
    run.c18.update(obj=obj, ctor_pending=False)
    return call(it, obj, 'warp', inp)


def ttg_steps(sc, p):
    c = p.run.c18
    n, f0 = c['n'], c['f0']
    y = validated(f0)
    if p.kind == 'raise':
        return raise_steps(sc, p)
    out = p.value
    o = lambda t: out.at(t, 0)
    allfin = QA(n, lambda t: X.is_fin(f0(t, 0)))           # what the preceding InfeasibleWarperComponent guarantees in create_warp_outliers_warper
    two = z3.And(rng(n, A_, B_), y(A_) != y(B_))
    G = sc.hyp(K_TTG_RANK, z3.Not(c['use_rank']))
    sc.step('input_not_modified', isinstance(out, NDArray) and out is not c['inp'] and not_modified(c), claim=True)
    sc.step('shape_preserved', shape_is(out, n), claim=True)
    C = C_ttg(y, o, n, allfin, G)
    sc.step('order_preserved_on_finite_labels', C['order_preserved_on_finite_labels'], claim=True, known=K_TTG_RANK)
    sc.step('ties_preserved', C['ties_preserved'], claim=True, known=K_TTG_RANK)
    sc.step('finite_output_for_nonconstant_finite_labels', C['finite_output_for_nonconstant_finite_labels'], claim=True)


def ttg_skip(p):
    return {K_TTG_RANK}


Spec('TransformToGaussian.warp', ['TransformToGaussian.warp', 'TransformToGaussian.__init__', '_validate_labels'], ttg_entry, ttg_steps, skip_strong=ttg_skip,
     native='ttg')


# =========================================================================================== create_warp_outliers_warper().warp as a composition
def component_contract2(kind):
    def fn(it, args, kw):
        self, a = args[0], args[1]
        run = it.run
        if not isinstance(a, NDArray) or a.rank != 2:
            raise Unsupported('pipeline stage applied to %r' % (a,))
        n, f = a.shape[0], a.fn
        haspinf = W.named_bool(it, QE(n, lambda t: X.is_pinf(f(t, 0))), 'haspinf')
        if it.truth(haspinf):
            raise PyRaise(it.make_exc('ValueError', ['Infinity metric value is not valid.']))
        y = validated(f)
        nz = zi(n)
        if kind == 'outliers':
            somefin = W.named_bool(it, QE(n, lambda t: X.is_fin(y(t))), 'somefin')
            if not it.truth(somefin):
                raise PyRaise(it.make_exc('ValueError', ['The max label value should be finite.']))
        res = W.fresh_array(run, kind, (n, 1), 'float')
        g = res.fn
        o = lambda t: g(t, 0)
        if kind == 'outliers':
            C = C_outliers(y, o, nz, X.r(X.lift(self.attrs['min_zscore'])) >= 0)
        else:
            ur = self.attrs['use_rank']
            G = z3.Not(zb(ur)) if K_TTG_RANK in LIVE else z3.BoolVal(True)
            C = C_ttg(y, o, nz, W.named_bool(it, QA(n, lambda t: X.is_fin(f(t, 0))), 'ttg_all_finite'), G)
        for nm in C:
            run.axiom(quantified(C[nm]))
        run.c18.setdefault('stages', []).append({'kind': kind, 'y': y, 'o': o, 'arg': a, 'res': res})
        run.assumed.add('pipeline stage %s replaced by the clauses proved for it by its own specification (assume-guarantee)' % kind)
        return res
    return fn


OUTLIER_MODELS = {
    OW + ':DetectOutliers.warp': component_contract2('outliers'),
    OW + ':InfeasibleWarperComponent.warp': component_contract('infeasible'),
    OW + ':TransformToGaussian.warp': component_contract2('ttg'),
}


def outlier_pipeline_entry(it):
    inp = fresh_labels(it)
    pipe = it.call(FuncVal(mod(), mod().funcs['create_warp_outliers_warper']), [], {})
    return call(it, pipe, 'warp', inp)


def outlier_pipeline_steps(sc, p):
    c = p.run.c18
    n, f0 = c['n'], c['f0']
    y = validated(f0)
    if p.kind == 'raise':
        return raise_steps(sc, p)
    out = p.value
    o = lambda t: out.at(t, 0)
    st = c.get('stages', [])
    fin2 = z3.And(rng(n, I_, J_), X.is_fin(y(I_)), X.is_fin(y(J_)))
    sc.step('input_not_modified', isinstance(out, NDArray) and out is not c['inp'] and not_modified(c), claim=True)
    sc.step('shape_preserved', shape_is(out, n), claim=True)
    if not st:
        v = z3.simplify(o(I_))
        sc.step('shortcut_value_is_zero_or_minus_one', bool(v.eq(X.fin(z3.RealVal(0))) or v.eq(X.fin(z3.RealVal(-1)))), claim=True)
        sc.step('all_outputs_finite', True, claim=True)
        return
    ok = [s_['kind'] for s_ in st] == ['outliers', 'infeasible', 'ttg'] and out is st[-1]['res']
    sc.step('outlier_components_in_order', ok, claim=True)
    if not ok:
        return
    h, l = st[0]['o'], st[1]['o']
    sc.step('stage1_input', z3.Implies(rng(n, I_), st[0]['y'](I_) == y(I_)))
    sc.step('stage1_kept_or_nan', z3.Implies(rng(n, I_), z3.Or(h(I_) == y(I_), X.is_nan(h(I_)))), uses=['stage1_input'])
    sc.step('stage1_dropped_below_kept', z3.Implies(z3.And(rng(n, I_, J_), X.is_fin(y(I_)), X.is_nan(h(I_)), X.is_fin(h(J_))), X.lt(y(I_), y(J_))), uses=['stage1_input'])
    sc.step('stage2_input', z3.Implies(rng(n, I_), st[1]['y'](I_) == h(I_)), uses=['stage1_kept_or_nan'])
    sc.step('stage2_finite', z3.Implies(rng(n, I_), X.is_fin(l(I_))), uses=['stage2_input'])
    sc.step('stage2_order', z3.Implies(z3.And(rng(n, I_, J_), X.is_fin(h(I_)), X.is_fin(h(J_))),
                                       z3.And(X.lt(h(I_), h(J_)) == X.lt(l(I_), l(J_)), (h(I_) == h(J_)) == (l(I_) == l(J_)))), uses=['stage2_input'])
    sc.step('stage2_nan_lowest', z3.Implies(z3.And(rng(n, I_, J_), X.is_nan(h(I_))),
                                            z3.And(z3.Implies(X.is_fin(h(J_)), X.lt(l(I_), l(J_))), z3.Implies(X.is_nan(h(J_)), l(I_) == l(J_)))), uses=['stage2_input'])
    sc.step('stage3_input', z3.Implies(rng(n, I_), st[2]['y'](I_) == l(I_)), uses=['stage2_finite'])
    sc.step('stage3_all_finite', QA(n, lambda t: X.is_fin(st[2]['arg'].fn(t, 0))), uses=['stage2_finite'])
    sc.step('stage3_monotone', z3.Implies(rng(n, I_, J_), z3.And(z3.Implies(X.lt(l(I_), l(J_)), z3.And(X.is_fin(o(I_)), X.is_fin(o(J_)), X.lt(o(I_), o(J_)))),
                                                                z3.Implies(l(I_) == l(J_), o(I_) == o(J_)))), uses=['stage3_input', 'stage3_all_finite'])
    chain = ['stage1_kept_or_nan', 'stage1_dropped_below_kept', 'stage2_finite', 'stage2_order', 'stage2_nan_lowest', 'stage3_monotone']
    sc.step('kept_labels_keep_their_order', z3.Implies(z3.And(fin2, X.is_fin(h(I_)), X.is_fin(h(J_)), X.lt(y(I_), y(J_))), X.lt(o(I_), o(J_))), claim=True, mode='iso', uses=chain)
    sc.step('order_never_reversed', z3.Implies(z3.And(fin2, X.lt(y(I_), y(J_))), z3.Or(X.lt(o(I_), o(J_)), o(I_) == o(J_))), claim=True, mode='iso', uses=chain)
    sc.step('ties_preserved', z3.Implies(z3.And(fin2, y(I_) == y(J_)), o(I_) == o(J_)), claim=True, mode='iso', uses=chain)
    sc.step('infeasible_no_higher_than_any_feasible', z3.Implies(z3.And(rng(n, I_, J_), X.is_nan(y(I_)), X.is_fin(y(J_))), z3.Or(X.lt(o(I_), o(J_)), o(I_) == o(J_))),
            claim=True, mode='iso', uses=chain)
    # finiteness: the TransformToGaussian stage needs two distinct inputs
    sc.step('some_label_finite', QE(n, lambda t: X.is_fin(y(t))))
    sc.step('some_label_kept', QE(n, lambda t: X.is_fin(h(t))), uses=['some_label_finite', 'stage1_input'])
    sc.step('nan_or_two_distinct_labels', z3.Or(QE(n, lambda t: X.is_nan(y(t))), QE(n, lambda a: QE(n, lambda b: y(a) != y(b)))))
    sc.step('stage3_two_distinct_inputs', QE(n, lambda a: QE(n, lambda b: l(a) != l(b))),
            uses=['some_label_kept', 'nan_or_two_distinct_labels', 'stage1_kept_or_nan', 'stage2_order', 'stage2_nan_lowest', 'stage2_finite'])
    sc.step('all_outputs_finite', z3.Implies(rng(n, I_), X.is_fin(o(I_))), claim=True, uses=['stage3_two_distinct_inputs', 'stage3_input', 'stage3_all_finite'])


Spec('create_warp_outliers_warper().warp', ['create_warp_outliers_warper', 'OutputWarperPipeline.warp', '_validate_labels'], outlier_pipeline_entry, outlier_pipeline_steps,
     models=OUTLIER_MODELS, native='outlier_pipeline')
