"""C18 -- output warping keeps the ranking of trials and always yields finite labels.

Contract-based deductive verification of the REAL source of vizier/_src/algorithms/designers/gp/output_warpers.py (AST re-read
from $VERIF_REPO on every run, executed symbolically by the pyvc engine; numpy/scipy fragment = pyvc/np_model.py + pyvc/warp_model.py).

Stated assumptions (chk.assume): machine arithmetic is treated as mathematical (floats = reals + NaN/+-inf, no rounding, no
overflow); log1p/log/exp/sqrt/norm.ppf are uninterpreted real functions with the axioms of warp_model.MATH_AXIOMS; every
numpy/scipy function is an assumed contract (warp_model.CONTRACTS), each of which is *conformance-tested natively* against the
installed library by replay/c18_conformance.py on every run -- a contract the library does not satisfy is reported against the
obligations that rest on it, never trusted silently.

Proof organisation: per function and per path a *proof script* of named steps over two arbitrary row indices i, j (free constants,
hence universally quantified): lemmas are proved from the path condition + library facts ('full'), from the loop invariant at loop
exit ('tail'), or purely from earlier lemmas ('iso': quantifier-free real arithmetic); property clauses are steps flagged as claims.
Only `unsat` proves; a step that is not proved is refuted only by a failing input reproduced on the real code (replay/c18_replay.py
runs the clause's predicate on the real warper); otherwise it is undecided.
"""
import json
import os
import sys
import time
import traceback

import z3

from pyvc import engine as E, models as M, np_model as NP, warp_model as W, xreal as X, attrs_model as AM, report, source, ckit
from pyvc.engine import Obj, FuncVal, Builtin, Unsupported, PyRaise
from pyvc.np_model import NDArray, QA, QE, QA2, zi, conc
from pyvc.source import ModuleInfo

OW = 'vizier._src.algorithms.designers.gp.output_warpers'
I_, J_ = z3.Int('c18!i'), z3.Int('c18!j')
ONLY = [s for s in os.environ.get('VERIF_C18_ONLY', '').split(',') if s]
VERBOSE = bool(os.environ.get('VERIF_C18_VERBOSE'))

ARITH = 'machine arithmetic treated as mathematical: floats are extended reals (XReal: finite reals, +inf, -inf, NaN), no rounding, no overflow'


SPECS = []          # Spec objects, in report order
ALL_KEYS = set()    # keys of the findings the specifications know about
NATIVE_FN = {}      # spec name -> name of the native runner in replay/c18_replay.py (falsification of unproved clauses)


def key(k):
    ALL_KEYS.add(k)
    return k


def mod():
    return ModuleInfo.get(OW)


def method(qual):
    m = mod()
    cls, node = m.find(qual)
    return FuncVal(m, node, cls)


def swap(f):
    return z3.substitute(f, (I_, J_), (J_, I_))


def zb(c):
    return z3.BoolVal(c) if isinstance(c, bool) else c


# ------------------------------------------------------------------------------------------ proof scripts
def solve_once(pcs, axs, extra, f, ms, seed):
    s = z3.Solver()
    s.set('rlimit', int(ms) * 3000)
    s.set('timeout', int(ms) * 3)
    s.set('random_seed', seed)
    for c in pcs:
        s.add(c)
    for c in axs:
        s.add(c)
    for c in extra:
        s.add(c)
    s.add(z3.Not(f))
    r = s.check()
    return 'unsat' if r == z3.unsat else ('sat' if r == z3.sat else 'unknown')


def portfolio(pcs, axs, extra, f, timeout_ms):
    """z3 verdicts on these queries (quantified library facts + nonlinear real arithmetic) depend on term numbering: try several seeds with a
    small deterministic budget (rlimit) before spending the full budget; `unsat` from any attempt proves the step"""
    last = 'unknown'
    for ms, seeds in ((min(1500, timeout_ms), (0, 1, 2)), (timeout_ms, (3, 0))):
        for seed in seeds:
            last = solve_once(pcs, axs, extra, f, ms, seed)
            if last == 'unsat':
                return last
            if last == 'sat':
                return last
    return last


class Script:
    """the proof script of one terminated path.  strong: prove every clause as stated; weak (residual) run: clauses and lemmas tagged
    with the key of a recorded finding are proved under the additional hypothesis 'outside the finding's witness class'."""

    def __init__(self, path, fname, strong=True, budget_ms=8000, skip=(), carry=None, dead=(), pi=0):
        self.path, self.run, self.fname, self.strong, self.pi = path, path.run, fname, strong, pi
        self.lem = dict(carry or {})   # name -> formula (proved on this path)
        self.dead = set(dead)          # untagged steps that already failed in the strong run
        self.skip = set(skip)          # finding keys whose strong form is not attempted (the library model itself refutes it)
        self.out = []                  # instance records
        self.budget_ms = budget_ms
        self.ax0 = getattr(path.run, 'c18', {}).get('ax0')

    def hyp(self, key, formula):
        """hypothesis that restricts a tagged step to the outside of finding `key`'s witness class (residual run only)"""
        return z3.BoolVal(True) if self.strong else formula

    # -- solver calls
    def _iso(self, f, hyps, timeout_ms):
        s = z3.Solver()
        s.set('rlimit', int(timeout_ms) * 2500)
        s.set('timeout', max(int(timeout_ms) * 15, 60000))
        hs = list(hyps)
        for h in hs + W.ground_math(hs + [f]):
            s.add(h)
        s.add(z3.Not(f))
        r = s.check()
        return 'unsat' if r == z3.unsat else ('sat' if r == z3.sat else 'unknown')

    def _ctx(self, f, extra, timeout_ms, tail=False, npc=None, nax=None):
        run = self.run
        pcs = run.pc if npc is None else run.pc[:npc]
        axs = run.axioms if nax is None else run.axioms[:nax]
        if tail and self.ax0 is not None:
            v = portfolio(pcs, axs[self.ax0:], extra, f, timeout_ms)
            if v == 'unsat':
                return v
        return portfolio(pcs, axs, extra, f, timeout_ms)

    def hyps(self, uses):
        hs = []
        for u in uses:
            if u in self.lem:
                hs.append(self.lem[u])
                hs.append(swap(self.lem[u]))
        return hs

    def step(self, name, f, mode='full', uses=(), claim=False, known=None, timeout_ms=None):
        """prove `f` on this path.  mode: 'full' (pc + all library facts + `uses`), 'tail' (pc + loop-exit facts, then full),
        'iso' (only `uses` and their i<->j swaps + ground instances of the math axioms; falls back to full).
        claim: a property clause (recorded as C18.<fn>.<name>); otherwise a lemma (C18.<fn>.lemma.<name>).
        known: key of the recorded finding this step depends on (its residual form is proved in the weak run)."""
        t0 = time.time()
        tmo = timeout_ms or self.budget_ms
        known = tuple(known) if isinstance(known, (tuple, list, set, frozenset)) else ((known,) if known else ())
        if not self.strong:
            if name in self.lem:
                return True
            if not known and name in self.dead:
                return False
        if self.strong and any(k in self.skip for k in known):
            if claim:
                self.out.append({'name': name, 'verdict': 'skipped', 'dt': 0.0, 'claim': True, 'known': known, 'strong': True, 'kind': 'claim',
                                 'path': self.path.describe(), 'pi': self.pi})
            return False
        if isinstance(f, bool):
            v = 'unsat' if f else 'false'
        else:
            missing = [u for u in uses if u not in self.lem]
            hs = self.hyps(uses)
            if missing and mode == 'iso':
                v = 'unknown'
            elif mode == 'iso':
                v = self._iso(f, hs, tmo)
                if v != 'unsat':
                    v2 = self._ctx(f, hs + W.ground_math(hs + [f]), tmo)
                    v = v2 if v2 == 'unsat' else 'unknown'
            elif mode == 'tail':
                v = self._ctx(f, hs, tmo, tail=True)
            else:
                v = self._ctx(f, hs, tmo)
            if v == 'sat':
                v = 'unknown'        # a model of a query with quantified library facts / dropped hypotheses is not a refutation
        if v == 'unsat' and not isinstance(f, bool):
            self.lem[name] = f
        elif v != 'unsat' and not known:
            self.dead.add(name)
        rec = {'name': name, 'verdict': v, 'dt': time.time() - t0, 'claim': claim, 'known': known, 'strong': self.strong,
               'kind': 'claim' if claim else 'lemma', 'path': self.path.describe(), 'pi': self.pi}
        self.out.append(rec)
        if VERBOSE:
            print('    [%s] %-34s %-8s %.2fs %s' % (self.fname, name, v, rec['dt'], '' if self.strong else '(residual)'))
            sys.stdout.flush()
        return v == 'unsat'

    def engine_obligations(self):
        """obligations emitted by the engine / the library models while executing the path (loop invariants, preconditions)"""
        for (nm, f, npc, nax, info) in self.run.obligations:
            t0 = time.time()
            if isinstance(f, bool):
                f = z3.BoolVal(f)
            v = self._ctx(f, [], self.budget_ms, tail='preserve' in nm, npc=npc, nax=nax)
            if v == 'sat':
                v = 'unknown'
            self.out.append({'name': nm, 'verdict': v, 'dt': time.time() - t0, 'claim': False, 'known': (), 'strong': True, 'kind': 'engine',
                             'path': self.path.describe(), 'pi': self.pi})
            if VERBOSE:
                print('    [%s] %-34s %-8s %.2fs (engine)' % (self.fname, nm, v, time.time() - t0))


class Spec:
    """one function under contract.  name: obligation prefix (C18.<name>.<clause>); quals: the real functions executed;
    native: runner of replay/c18_replay.py that evaluates the clauses of this spec on the real code"""

    def __init__(self, name, quals, entry, steps, skip_strong=None, loops=(), native=None, min_claims=1):
        self.name, self.quals, self.entry, self.steps = name, quals, entry, steps
        self.skip_strong = skip_strong or (lambda path: set())
        self.loops, self.native, self.min_claims = loops, native, min_claims
        SPECS.append(self)


def run_spec(spec, tier, live=()):
    """explore + prove; returns plain data.  live: keys of the recorded findings whose witness reproduces on the current code"""
    t0 = time.time()
    for key, ls in spec.loops:
        E.LOOPS[key] = ls
    paths = E.explore(spec.entry, max_paths=400, timeout_ms=1500, deadline_s=240)
    res = {'name': spec.name, 'quals': list(spec.quals), 'paths': [(p.kind, p.describe()) for p in paths], 'inst': [], 'assumed': set(), 'lib': set(),
           'inlined': set(), 'unsupported': sorted({p.value for p in paths if p.kind == 'unsupported'})}
    budget = 8000 if tier == 'quick' else 30000
    for pi, p in enumerate(paths):
        res['assumed'] |= p.run.assumed
        res['lib'] |= p.run.__dict__.get('lib_used', set())
        res['inlined'] |= p.run.inlined
        if p.kind == 'unsupported':
            continue
        sc = Script(p, spec.name, True, budget, skip=set(spec.skip_strong(p)) & set(live), pi=pi)
        sc.engine_obligations()
        if p.kind in ('return', 'raise'):
            spec.steps(sc, p)
        res['inst'] += sc.out
        weak_needed = {k for r in sc.out if r['verdict'] != 'unsat' for k in r['known']}
        if weak_needed and p.kind in ('return', 'raise'):
            sw = Script(p, spec.name, False, budget, carry=sc.lem, dead=sc.dead, pi=pi)
            spec.steps(sw, p)
            res['inst'] += sw.out
    res['wall'] = time.time() - t0
    return res


# ------------------------------------------------------------------------------------------ common pieces of the specifications
def fresh_labels(it, name='y', lo=0):
    """an arbitrary (n, 1) float label array (any mix of finite values, NaN, +-inf)"""
    run = it.run
    n = run.fresh('n', z3.IntSort())
    run.assume(n >= lo)
    inp = NP.fresh_array(run, name, (n, 1), 'float')
    run.c18 = {'inp': inp, 'n': n, 'f0': inp.fn}
    return inp


def validated(f0):
    """specification of _validate_labels on one entry: -inf -> NaN, everything else unchanged"""
    return lambda t: z3.If(X.is_ninf(f0(t, 0)), X.nan, f0(t, 0))


def rng(n, *idx):
    return z3.And(*[z3.And(t >= 0, t < n) for t in idx])


def not_modified(c):
    return c['inp'].version == 0 and c['inp'].fn is c['f0']


def shape_is(out, n):
    if not isinstance(out, NDArray) or out.rank != 2:
        return False
    return z3.And(zi(out.shape[0]) == n, zi(out.shape[1]) == 1)


def exc_name(p):
    return E.class_name(p.value.cls) if p.kind == 'raise' else None


def has_pinf(c):
    return QE(c['n'], lambda t: X.is_pinf(c['f0'](t, 0)))


def raise_steps(sc, p, allowed_when=None, known=None):
    """clause `raises_only_documented`: the only exception is the documented ValueError for a +inf label (or, for `allowed_when`,
    another documented ValueError); anything else must be unreachable"""
    c = p.run.c18
    if exc_name(p) == 'ValueError':
        msg = str((p.value.attrs.get('args') or ('',))[0])
        if 'Infinity' in msg:
            return sc.step('raises_only_documented', has_pinf(c), claim=True)
        if allowed_when is not None:
            f = allowed_when(msg)
            if f is not None:
                return sc.step('raises_only_documented', f, claim=True)
    cls = known[1](p) if known else None
    f = z3.BoolVal(False) if (sc.strong or cls is None) else cls
    return sc.step('raises_only_documented', f, claim=True, known=known[0] if known else None)


def make(it, clsname, **attrs):
    return AM.make_instance(it, mod().classes[clsname], **attrs)


def call(it, obj, meth, *args):
    return it.call(it.getattr(obj, meth), list(args), {})


# =========================================================================================== _validate_labels
def validate_entry(it):
    inp = fresh_labels(it)
    return it.call(FuncVal(mod(), mod().funcs['_validate_labels']), [inp], {})


def validate_steps(sc, p):
    c = p.run.c18
    n, f0 = c['n'], c['f0']
    if p.kind == 'raise':
        return raise_steps(sc, p)
    out = p.value
    sc.step('returns_fresh_copy', isinstance(out, NDArray) and out is not c['inp'] and not_modified(c), claim=True)
    sc.step('shape_preserved', shape_is(out, n), claim=True)
    sc.step('neginf_to_nan_rest_unchanged', z3.Implies(rng(n, I_), out.at(I_, 0) == validated(f0)(I_)), claim=True)
    sc.step('posinf_rejected', z3.Implies(rng(n, I_), z3.Not(X.is_pinf(f0(I_, 0)))), claim=True)


def validate_badshape_entry(it):
    run = it.run
    n = run.fresh('n', z3.IntSort())
    run.assume(n >= 0)
    inp = NP.fresh_array(run, 'y', (n,), 'float')
    run.c18 = {'inp': inp, 'n': n, 'f0': inp.fn}
    return it.call(FuncVal(mod(), mod().funcs['_validate_labels']), [inp], {})


def validate_badshape_steps(sc, p):
    sc.step('rank1_rejected', p.kind == 'raise' and exc_name(p) == 'ValueError' and not_modified(p.run.c18), claim=True)


# =========================================================================================== InfeasibleWarperComponent
def infeasible_entry(roundtrip):
    def entry(it):
        inp = fresh_labels(it)
        obj = make(it, 'InfeasibleWarperComponent', _shift=None)
        it.run.c18['obj'] = obj
        w = call(it, obj, 'warp', inp)
        if not roundtrip:
            return w
        it.run.c18['warped'] = w
        it.run.c18['w_fn'] = w.fn
        return call(it, obj, 'unwarp', w)
    return entry


def infeasible_steps(sc, p):
    c = p.run.c18
    n, f0 = c['n'], c['f0']
    if p.kind == 'raise':
        return raise_steps(sc, p)
    out, y = p.value, validated(f0)
    o = lambda t: out.at(t, 0)
    sc.step('input_not_modified', isinstance(out, NDArray) and out is not c['inp'] and not_modified(c), claim=True)
    sc.step('shape_preserved', shape_is(out, n), claim=True)
    sc.step('all_outputs_finite', z3.Implies(rng(n, I_), X.is_fin(o(I_))), claim=True)
    sc.step('infeasible_strictly_below_feasible', z3.Implies(z3.And(rng(n, I_, J_), X.is_nan(y(I_)), X.is_fin(y(J_))), X.lt(o(I_), o(J_))), claim=True)
    sc.step('feasible_shifted_by_common_constant',
            z3.Implies(z3.And(rng(n, I_, J_), X.is_fin(y(I_)), X.is_fin(y(J_))), X.r(o(I_)) - X.r(y(I_)) == X.r(o(J_)) - X.r(y(J_))), claim=True)
    sc.step('order_and_ties_of_feasible_preserved',
            z3.Implies(z3.And(rng(n, I_, J_), X.is_fin(y(I_)), X.is_fin(y(J_))), z3.And(X.lt(y(I_), y(J_)) == X.lt(o(I_), o(J_)), (y(I_) == y(J_)) == (o(I_) == o(J_)))),
            mode='iso', uses=['feasible_shifted_by_common_constant', 'all_outputs_finite'], claim=True)
    sc.step('infeasible_entries_tie', z3.Implies(z3.And(rng(n, I_, J_), X.is_nan(y(I_)), X.is_nan(y(J_))), o(I_) == o(J_)), claim=True)


def infeasible_roundtrip_steps(sc, p):
    c = p.run.c18
    n, f0 = c['n'], c['f0']
    if p.kind == 'raise':
        return raise_steps(sc, p)
    out, y = p.value, validated(f0)
    sc.step('shape_preserved', shape_is(out, n), claim=True)
    sc.step('unwarp_does_not_modify_its_input', c['warped'].fn is c['w_fn'] and out is not c['warped'], claim=True)
    sc.step('unwarp_inverts_warp_on_feasible', z3.Implies(z3.And(rng(n, I_), X.is_fin(y(I_))), out.at(I_, 0) == y(I_)), claim=True)


def infeasible_unwarp_first_entry(it):
    inp = fresh_labels(it)
    obj = make(it, 'InfeasibleWarperComponent', _shift=None)
    return call(it, obj, 'unwarp', inp)


def unwarp_first_steps(sc, p):
    sc.step('unwarp_before_warp_rejected', p.kind == 'raise' and exc_name(p) == 'ValueError', claim=True)


# =========================================================================================== LogWarperComponent
K_LOG_CONST = key('log_constant_labels')
K_LOG_OFFSET1 = key('log_offset_one')


def log_entry(roundtrip):
    def entry(it):
        run = it.run
        inp = fresh_labels(it)
        off = run.fresh('offset', z3.RealSort())
        run.assume(off > 0)                      # the attrs validator of `offset`: gt(0.0)
        obj = make(it, 'LogWarperComponent', _labels_min=None, _labels_max=None, offset=X.fin(off))
        run.c18.update(obj=obj, off=off)
        for a in W.math_axioms():
            run.axiom(a)
        w = call(it, obj, 'warp', inp)
        if not roundtrip:
            return w
        run.c18['warped'], run.c18['w_fn'] = w, w.fn
        return call(it, obj, 'unwarp', w)
    return entry


def log_good(sc, c, y):
    """outside the witness classes of the two LogWarper findings: offset != 1 and at least two distinct finite labels"""
    mn, mx = X.lift(c['obj'].attrs['_labels_min']), X.lift(c['obj'].attrs['_labels_max'])
    return z3.And(sc.hyp(K_LOG_OFFSET1, c['off'] != 1), sc.hyp(K_LOG_CONST, X.lt(mn, mx)))


def log_steps(sc, p):
    c = p.run.c18
    n, f0 = c['n'], c['f0']
    if p.kind == 'raise':
        return raise_steps(sc, p)
    out, y = p.value, validated(f0)
    o = lambda t: out.at(t, 0)
    mn, mx = X.lift(c['obj'].attrs['_labels_min']), X.lift(c['obj'].attrs['_labels_max'])
    fin2 = z3.And(rng(n, I_, J_), X.is_fin(y(I_)), X.is_fin(y(J_)))
    sc.step('input_not_modified', isinstance(out, NDArray) and out is not c['inp'] and not_modified(c), claim=True)
    sc.step('shape_preserved', shape_is(out, n), claim=True)
    sc.step('nan_untouched', z3.Implies(z3.And(rng(n, I_), X.is_nan(y(I_))), X.is_nan(o(I_))), claim=True)
    sc.step('min_max_recorded', z3.Implies(z3.And(rng(n, I_), X.is_fin(y(I_))), z3.And(X.le(mn, y(I_)), X.le(y(I_), mx))))
    # strictly increasing needs offset != 1 only (two distinct finite labels imply max > min); finiteness needs both
    g_off = sc.hyp(K_LOG_OFFSET1, c['off'] != 1)
    sc.step('strictly_increasing_on_finite', z3.Implies(z3.And(fin2, g_off, X.lt(y(I_), y(J_))), X.lt(o(I_), o(J_))), claim=True, known=K_LOG_OFFSET1)
    sc.step('ties_preserved', z3.Implies(z3.And(fin2, y(I_) == y(J_)), o(I_) == o(J_)), claim=True)
    sc.step('finite_to_finite', z3.Implies(z3.And(rng(n, I_), log_good(sc, c, y), X.is_fin(y(I_))), X.is_fin(o(I_))), claim=True, known=(K_LOG_CONST, K_LOG_OFFSET1))


def log_skip(p):
    return {K_LOG_CONST, K_LOG_OFFSET1}


def log_roundtrip_steps(sc, p):
    c = p.run.c18
    n, f0 = c['n'], c['f0']
    if p.kind == 'raise':
        return raise_steps(sc, p)
    out, y = p.value, validated(f0)
    sc.step('shape_preserved', shape_is(out, n), claim=True)
    sc.step('unwarp_does_not_modify_its_input', c['warped'].fn is c['w_fn'] and out is not c['warped'], claim=True)
    sc.step('unwarp_inverts_warp_on_finite', z3.Implies(z3.And(rng(n, I_), log_good(sc, c, y), X.is_fin(y(I_))), out.at(I_, 0) == y(I_)),
            claim=True, known=(K_LOG_CONST, K_LOG_OFFSET1))


Spec('_validate_labels', ['_validate_labels'], validate_entry, validate_steps, native='validate')
Spec('_validate_labels[rank1]', ['_validate_labels'], validate_badshape_entry, validate_badshape_steps, native='validate_rank1')
Spec('InfeasibleWarperComponent.warp', ['InfeasibleWarperComponent.warp', '_validate_labels'], infeasible_entry(False), infeasible_steps, native='infeasible')
Spec('InfeasibleWarperComponent.unwarp', ['InfeasibleWarperComponent.unwarp', 'InfeasibleWarperComponent.warp'], infeasible_entry(True),
     infeasible_roundtrip_steps, native='infeasible_roundtrip')
Spec('InfeasibleWarperComponent.unwarp[first]', ['InfeasibleWarperComponent.unwarp'], infeasible_unwarp_first_entry, unwarp_first_steps, native='infeasible_unwarp_first')
Spec('LogWarperComponent.warp', ['LogWarperComponent.warp', '_validate_labels'], log_entry(False), log_steps, skip_strong=log_skip, native='log')
Spec('LogWarperComponent.unwarp', ['LogWarperComponent.unwarp', 'LogWarperComponent.warp'], log_entry(True), log_roundtrip_steps, skip_strong=log_skip,
     native='log_roundtrip')


# =========================================================================================== HalfRankComponent.warp
K_HR_NAN = key('halfrank_nan_rank')
K_HR_ALLNAN = key('halfrank_all_nan_indexerror')
HR_LOOP = (OW, 'HalfRankComponent.warp', 1)


def _mentions(run, t, prefix, depth=3):
    """does the (named) float scalar `t` depend on a constant whose name starts with `prefix`?"""
    defs = run.__dict__.get('named_defs', {})
    seen, todo = set(), [(t, 0)]
    while todo:
        x, d = todo.pop()
        if x.get_id() in seen:
            continue
        seen.add(x.get_id())
        if z3.is_const(x) and x.decl().kind() == z3.Z3_OP_UNINTERPRETED:
            if x.decl().name().startswith(prefix):
                return True
            if x.get_id() in defs and d < depth:
                todo.append((defs[x.get_id()], d + 1))
        todo.extend((ch, d) for ch in x.children())
    return False


def halfrank_roles(it, env):
    """the locals of HalfRankComponent.warp at loop entry, found by what they ARE (never by their names)"""
    run = it.run
    ranks = [v for v in env.values() if isinstance(v, NDArray) and hasattr(v, 'ranks_of')]
    uniq = [v for v in env.values() if isinstance(v, NDArray) and hasattr(v, 'unique_of')]
    if len(ranks) != 1 or len(uniq) != 1:
        raise Unsupported('loop contract of HalfRankComponent.warp: expected one rankdata(...) result and one np.unique(...) result among the locals')
    ranks, uniq = ranks[0], uniq[0]
    labels = [k for k, v in env.items() if v is ranks.ranks_of[0]]
    if len(labels) != 1:
        raise Unsupported('loop contract of HalfRankComponent.warp: the array passed to rankdata is not a (single) local')
    scal = {}
    for k, v in env.items():
        if isinstance(v, float):
            v = X.lit(v)
        if z3.is_expr(v) and v.sort() == X.XReal:
            scal[k] = v
    med = [k for k, v in scal.items() if z3.is_const(v) and v.decl().name().startswith('nanmedian!')]
    if len(med) != 1:
        raise Unsupported('loop contract of HalfRankComponent.warp: expected exactly one np.nanmedian(...) result among the locals')
    den = [k for k, v in scal.items() if k != med[0] and _mentions(run, v, 'ssplit!')]
    std = [k for k, v in scal.items() if k != med[0] and k not in den]
    if len(den) != 1 or len(std) != 1:
        raise Unsupported('loop contract of HalfRankComponent.warp: cannot identify the rank denominator / the estimated std among the float locals %s'
                          % sorted(scal))
    ss = [v for v in env.values() if z3.is_expr(v) and v.sort() == z3.IntSort() and z3.is_const(v) and v.decl().name().startswith('ssplit!')]
    return {'labels': labels[0], 'ranks': ranks, 'u': uniq, 'median': scal[med[0]], 'den': scal[den[0]], 'std': scal[std[0]], 's': ss[0] if len(ss) == 1 else None}


def halfrank_value(ranks, median, den, std):
    """what the warper writes for a finite label below the median: ppf(0.5 * (rank - 0.5) / denominator) * std + median"""
    def q(j):
        return W.xdiv(X.mul(X.lit(0.5), X.sub(ranks.at(j), X.lit(0.5))), den)
    return q, (lambda j: X.add(X.mul(W.xppf(q(j)), std), median))


def halfrank_inv(it, fr, ctx):
    R = halfrank_roles(it, ctx.entry_env)
    cur, ent = fr.env[R['labels']], ctx.entry_vals[R['labels']]
    q, val = halfrank_value(R['ranks'], R['median'], R['den'], R['std'])
    spec = lambda j: z3.If(z3.And(X.is_fin(ent.at(j)), X.lt(ent.at(j), R['median'])), val(j), ent.at(j))
    R.update(ent=ent, q=q, val=val)
    it.run.c18['loop'] = R
    if ctx.phase == 'head':
        it.run.c18['ax0'] = len(it.run.axioms)
    i = ctx.i
    return [('pointwise_map', QA(cur.shape[0], lambda j: cur.at(j) == z3.If(j < i, spec(j), ent.at(j))))]


def halfrank_entry(it):
    run = it.run
    inp = fresh_labels(it)
    obj = make(it, 'HalfRankComponent', _unwarper=None)
    run.c18['obj'] = obj
    for a in W.math_axioms():
        run.axiom(a)
    return call(it, obj, 'warp', inp)


def halfrank_skip(p):
    L = p.run.c18.get('loop')
    if L is not None and L['ranks'].ranks_of[2] == 'propagate':
        return {K_HR_NAN, K_HR_ALLNAN}
    return {K_HR_ALLNAN}


def no_finite(c):
    return QA(c['n'], lambda t: z3.Not(X.is_fin(c['f0'](t, 0))))


def halfrank_steps(sc, p):
    c = p.run.c18
    n, f0 = c['n'], c['f0']
    y = validated(f0)
    if p.kind == 'raise':
        return raise_steps(sc, p, known=(K_HR_ALLNAN, lambda p_: no_finite(c)))
    out = p.value
    o = lambda t: out.at(t, 0)
    sc.step('input_not_modified', isinstance(out, NDArray) and out is not c['inp'] and not_modified(c), claim=True)
    sc.step('shape_preserved', shape_is(out, n), claim=True)
    sc.step('nan_untouched', z3.Implies(z3.And(rng(n, I_), X.is_nan(y(I_))), X.is_nan(o(I_))), claim=True, mode='tail')
    L = c.get('loop')
    nonan = QA(n, lambda t: X.is_fin(f0(t, 0)))
    G = sc.hyp(K_HR_NAN, nonan)
    fin2 = z3.And(rng(n, I_, J_), X.is_fin(y(I_)), X.is_fin(y(J_)))
    if L is None:
        # size-1 shortcut (or no loop): the validated copy is returned as it is
        sc.step('identity_without_loop', z3.Implies(rng(n, I_), o(I_) == y(I_)))
        for nm in ('top_half_unchanged', 'finite_to_finite'):
            sc.step(nm, z3.Implies(z3.And(rng(n, I_), X.is_fin(y(I_))), o(I_) == y(I_)), claim=True, mode='iso', uses=['identity_without_loop'])
        sc.step('below_median_mapped_strictly_below', True, claim=True)
        sc.step('order_of_finite_preserved', z3.Implies(z3.And(fin2, X.lt(y(I_), y(J_))), X.lt(o(I_), o(J_))), claim=True, mode='iso', uses=['identity_without_loop'])
        sc.step('ties_preserved', z3.Implies(z3.And(fin2, y(I_) == y(J_)), o(I_) == o(J_)), claim=True, mode='iso', uses=['identity_without_loop'])
        return
    med, den, std, ranks, u, s = L['median'], L['den'], L['std'], L['ranks'], L['u'], L['s']
    root, vs, uf, wit = u.unique_of
    cnt, K = vs.cnt, vs.K
    q, val = L['q'], L['val']
    below = lambda t: z3.And(X.is_fin(y(t)), X.lt(y(t), med))
    c_ = lambda t: cnt(X.r(y(t)))
    H1, H2 = z3.And(rng(n, I_), G), z3.And(rng(n, I_, J_), G)
    # -- what the loop did (from the loop invariant at loop exit)
    sc.step('loop_exit_unchanged', z3.Implies(z3.And(rng(n, I_), z3.Not(below(I_))), o(I_) == y(I_)), mode='tail')
    sc.step('loop_exit_value', z3.Implies(z3.And(rng(n, I_), below(I_)), o(I_) == val(I_)), mode='tail')
    sc.step('top_half_unchanged', z3.Implies(z3.And(rng(n, I_), X.is_fin(y(I_)), X.le(med, y(I_))), o(I_) == y(I_)), claim=True, mode='iso', uses=['loop_exit_unchanged'])
    # -- library facts at the two indices
    sc.step('median_finite', z3.Implies(z3.And(rng(n, I_), X.is_fin(y(I_))), X.is_fin(med)))
    sc.step('count_range', z3.Implies(z3.And(rng(n, I_), X.is_fin(y(I_))), z3.And(c_(I_) >= 0, c_(I_) < K)))
    sc.step('count_monotone', z3.Implies(z3.And(fin2, X.lt(y(I_), y(J_))), c_(I_) < c_(J_)))
    sc.step('count_equal', z3.Implies(z3.And(fin2, y(I_) == y(J_)), c_(I_) == c_(J_)), mode='iso')
    sc.step('rank_value', z3.Implies(z3.And(H1, X.is_fin(y(I_))), ranks.at(I_) == X.fin(z3.ToReal(c_(I_) + 1))), known=K_HR_NAN)
    sc.step('rank_equal', z3.Implies(z3.And(fin2, y(I_) == y(J_)), ranks.at(I_) == ranks.at(J_)), uses=['count_equal'])
    if s is not None:
        sc.step('rank_at_most_median_index', z3.Implies(z3.And(rng(n, I_), below(I_)), c_(I_) + 1 <= s))
        sc.step('denominator_value', z3.Implies(rng(n, I_), z3.And(X.is_fin(den), X.r(den) >= z3.ToReal(s), X.r(den) <= z3.ToReal(s) + z3.Q(1, 2))))
    sc.step('std_positive', z3.Implies(z3.And(rng(n, I_), below(I_)), z3.And(X.is_fin(std), X.r(std) > 0)))
    # -- arithmetic of the rank quantile (quantifier-free, from the lemmas above)
    base = ['median_finite', 'count_range', 'count_monotone', 'count_equal', 'rank_value', 'rank_at_most_median_index', 'denominator_value', 'std_positive']
    sc.step('quantile_in_lower_half', z3.Implies(z3.And(H1, below(I_)), z3.And(X.is_fin(q(I_)), X.r(q(I_)) > 0, X.r(q(I_)) < z3.Q(1, 2))),
            mode='iso', uses=base, known=K_HR_NAN)
    sc.step('quantile_monotone', z3.Implies(z3.And(H2, below(I_), below(J_), X.lt(y(I_), y(J_))), X.r(q(I_)) < X.r(q(J_))), mode='iso',
            uses=base + ['quantile_in_lower_half'], known=K_HR_NAN)
    sc.step('quantile_equal', z3.Implies(z3.And(H2, below(I_), below(J_), y(I_) == y(J_)), q(I_) == q(J_)), mode='iso', uses=base, known=K_HR_NAN)
    arith = base + ['quantile_in_lower_half', 'quantile_monotone', 'quantile_equal', 'loop_exit_unchanged', 'loop_exit_value']
    # -- the clauses
    sc.step('below_median_mapped_strictly_below', z3.Implies(z3.And(H1, below(I_)), z3.And(X.is_fin(o(I_)), X.lt(o(I_), med))), claim=True, mode='iso',
            uses=arith, known=K_HR_NAN)
    sc.step('finite_to_finite', z3.Implies(z3.And(H1, X.is_fin(y(I_))), X.is_fin(o(I_))), claim=True, mode='iso',
            uses=arith + ['below_median_mapped_strictly_below'], known=K_HR_NAN)
    sc.step('order_below_median', z3.Implies(z3.And(H2, below(I_), below(J_), X.lt(y(I_), y(J_))), X.lt(o(I_), o(J_))), mode='iso', uses=arith, known=K_HR_NAN)
    sc.step('order_of_finite_preserved', z3.Implies(z3.And(H2, fin2, X.lt(y(I_), y(J_))), X.lt(o(I_), o(J_))), claim=True, mode='iso',
            uses=arith + ['below_median_mapped_strictly_below', 'order_below_median'], known=K_HR_NAN)
    sc.step('ties_preserved', z3.Implies(z3.And(fin2, y(I_) == y(J_)), o(I_) == o(J_)), claim=True, mode='iso',
            uses=['loop_exit_unchanged', 'loop_exit_value', 'count_equal', 'rank_equal'])
    # -- the state saved for unwarp
    uw = c['obj'].attrs.get('_unwarper')
    ok = isinstance(uw, Obj) and all(isinstance(uw.attrs.get(k), NDArray) for k in ('_original_labels', '_warped_labels'))
    sc.step('unwarper_saved', bool(ok), claim=True)
    if ok:
        ol, wl = uw.attrs['_original_labels'], uw.attrs['_warped_labels']
        kk = z3.And(I_ >= 0, I_ < J_, J_ < K)
        sc.step('unwarper_table_sizes', z3.And(zi(ol.shape[0]) == K, zi(wl.shape[0]) == K), claim=True)
        sc.step('unwarper_originals_strictly_ascending', z3.Implies(kk, z3.And(X.is_fin(ol.at(I_)), X.is_fin(ol.at(J_)), X.lt(ol.at(I_), ol.at(J_)))), claim=True)
        B = getattr(wl, 'gather_of', None)
        pos = None
        if B is not None and getattr(B[0], 'mask_read', None) is not None:
            hit = p.run.__dict__.get('np_masks', {}).get(id(B[0].mask_read[1].fn))
            if hit is not None:
                cntm, sel, rnk = hit[1]
                pos = lambda t: sel(B[1].at(t))
        om = X.lift(uw.attrs.get('_original_label_median'))
        if pos is not None:
            sc.step('largest_label_unchanged', z3.Implies(K >= 1, z3.And(X.is_fin(med), X.le(med, ol.at(K - 1)), wl.at(K - 1) == ol.at(K - 1))))
            sc.step('unwarper_saved_median_at_most_largest_warped', z3.Implies(K >= 1, X.le(om, wl.at(K - 1))), claim=True, uses=['largest_label_unchanged'])
        if pos is not None:
            tk = z3.And(I_ >= 0, I_ < K)
            sc.step('unwarper_table_pairs_observed_label_with_its_warped_value',
                    z3.Implies(tk, z3.And(pos(I_) >= 0, pos(I_) < n, y(pos(I_)) == ol.at(I_), o(pos(I_)) == wl.at(I_))), claim=True)
        else:
            sc.step('unwarper_table_pairs_observed_label_with_its_warped_value', False, claim=True)


Spec('HalfRankComponent.warp', ['HalfRankComponent.warp', 'HalfRankComponent._estimate_std_of_good_half', '_validate_labels'], halfrank_entry, halfrank_steps,
     skip_strong=halfrank_skip, loops=[(HR_LOOP, E.LoopSpec(halfrank_inv))], native='halfrank')


# =========================================================================================== HalfRankComponent._estimate_std_of_good_half
def goodstd_entry(it):
    run = it.run
    K = run.fresh('K', z3.IntSort())
    run.assume(K >= 1)
    u = NP.fresh_array(run, 'u', (K,), 'float')
    thr = run.fresh('thr', z3.RealSort())
    a, b = run.fresh('a', z3.IntSort()), run.fresh('b', z3.IntSort())
    f = u.fn
    NP.fact(run, QA(K, lambda t: X.is_fin(f(t))))
    NP.fact(run, QA2(K, lambda t1, t2: X.r(f(t1)) < X.r(f(t2))))
    run.assume(z3.And(a >= 0, a < K, X.r(f(a)) >= thr))            # some label is >= the threshold (the threshold is the median)
    run.c18 = {'u': u, 'thr': thr, 'K': K, 'b': b, 'u_fn': u.fn}
    for ax in W.math_axioms():
        run.axiom(ax)
    obj = make(it, 'HalfRankComponent', _unwarper=None)
    return call(it, obj, '_estimate_std_of_good_half', u, X.fin(thr))


def goodstd_steps(sc, p):
    c = p.run.c18
    if p.kind == 'raise':
        return sc.step('no_exception', z3.BoolVal(False), claim=True)
    r = X.lift(p.value)
    f, b, K, thr = c['u_fn'], c['b'], c['K'], c['thr']
    sc.step('argument_not_modified', c['u'].fn is c['u_fn'], claim=True)
    sc.step('finite_and_nonnegative', z3.And(X.is_fin(r), X.r(r) >= 0), claim=True)
    sc.step('positive_when_some_label_differs_from_threshold', z3.Implies(z3.And(b >= 0, b < K, X.r(f(b)) != thr), z3.And(X.is_fin(r), X.r(r) > 0)), claim=True)


Spec('HalfRankComponent._estimate_std_of_good_half', ['HalfRankComponent._estimate_std_of_good_half'], goodstd_entry, goodstd_steps, native='goodstd')


# =========================================================================================== _HalfRankUnwarper.unwarp
K_UNW_MEDIAN = key('halfrank_unwarp_median_mismatch')
K_UNW_CLOSE = key('halfrank_unwarp_isclose_index')


def unwarper_entry(exact):
    def entry(it):
        run = it.run
        K = run.fresh('K', z3.IntSort())
        run.assume(K >= 1)
        ol, wl = NP.fresh_array(run, 'orig', (K,), 'float'), NP.fresh_array(run, 'warped', (K,), 'float')
        om = run.fresh('omed', z3.RealSort())
        fo, fw = ol.fn, wl.fn
        # class invariant of _HalfRankUnwarper as established by HalfRankComponent.warp (clauses unwarper_*): both tables finite and
        # strictly ascending, same length
        for f in (fo, fw):
            NP.fact(run, QA(K, lambda t: X.is_fin(f(t))))
            t1, t2 = z3.Int('tb!1'), z3.Int('tb!2')
            run.axiom(z3.ForAll([t1, t2], z3.Implies(z3.And(t1 >= 0, t1 < t2, t2 < K), X.r(f(t1)) < X.r(f(t2))), patterns=[z3.MultiPattern(f(t1), f(t2))]))
        run.assume(om <= X.r(fw(K - 1)))              # clause unwarper_saved_median_at_most_largest_warped of HalfRankComponent.warp
        k = run.fresh('k', z3.IntSort())
        run.assume(z3.And(k >= 0, k < K))
        lab = run.fresh('label', z3.RealSort())
        if exact:
            run.assume(lab == X.r(fw(k)))            # the label is the warped value of the k-th observed value
        obj = make(it, '_HalfRankUnwarper', _original_labels=ol, _warped_labels=wl, _original_label_median=X.fin(om))
        run.c18 = {'K': K, 'ol': ol, 'wl': wl, 'fo': fo, 'fw': fw, 'om': om, 'k': k, 'lab': lab}
        return call(it, obj, 'unwarp', X.fin(lab))
    return entry


def unwarper_steps(exact):
    def steps(sc, p):
        c = p.run.c18
        if p.kind == 'raise':
            return sc.step('no_exception', z3.BoolVal(False), claim=True)
        r = X.lift(p.value)
        fo, fw, k, lab, om, K = c['fo'], c['fw'], c['k'], c['lab'], c['om'], c['K']
        sc.step('tables_not_modified', c['ol'].fn is fo and c['wl'].fn is fw, claim=True)
        if not exact:
            sc.step('identity_at_or_above_saved_median', z3.Implies(lab >= om, r == X.fin(lab)), claim=True)
            return
        close = W._np_isclose(None, [fw(z3.IntVal(1)), X.fin(lab)], {})
        not_med = sc.hyp(K_UNW_MEDIAN, z3.Not(z3.And(lab >= om, fw(k) != fo(k))))
        not_close = sc.hyp(K_UNW_CLOSE, z3.Not(z3.And(lab < om, k >= 2, close)))
        sc.step('returns_original_of_observed_warped_value', z3.Implies(z3.And(not_med, not_close), r == fo(k)), claim=True, known=(K_UNW_MEDIAN, K_UNW_CLOSE))
    return steps


def unwarper_skip(p):
    return {K_UNW_MEDIAN, K_UNW_CLOSE}


Spec('_HalfRankUnwarper.unwarp', ['_HalfRankUnwarper.unwarp'], unwarper_entry(True), unwarper_steps(True), skip_strong=unwarper_skip, native='unwarper')
Spec('_HalfRankUnwarper.unwarp[any label]', ['_HalfRankUnwarper.unwarp'], unwarper_entry(False), unwarper_steps(False), native='unwarper_any')
